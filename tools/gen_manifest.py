#!/usr/bin/env python3
# Regenerates /verif/MANIFEST.json from the table below and props.json.
import json, subprocess
props = [json.loads(l) for l in open('/verif/properties.jsonl')]
cfg = json.load(open('/verif/props.json'))
T = "contract-based deductive verification: contracts (//@ comments, build tag verif) on the real functions; VCs generated from go/ssa by kbv; z3 4.8.12 / z3 5.1.0 / cvc5 1.0.3"
claims = {
 "C10": ("proof", "Every obligation generated from the current source of EncodeObjectKey, EncodeRevisionKey, Decode, ParseRevision, PrefixEnd (loop invariant) and uint64ToBytes is discharged for all byte strings and all 64-bit revisions: exact byte layout, round trip, bounds safety, and the order / injectivity / index-first lemmas over the same spec functions (is_enc, lexlt_at).",
         "Trusted: the kbv VC generator, go/ssa, the SMT solvers, the assumed meaning of copy/append/binary.BigEndian/bytes.Equal; slices are at most 2^48 long. The prefix-range enclosure is proved as separate lemmas over the spec functions, composed by hand in DESIGN.md."),
 "C02": ("proof", "Per atomic step: every atomic write to the deal counter in package tso leaves it unchanged or larger (two-state guarantee checked at each sync/atomic call), Deal increases it by exactly one and returns the new value, Init has no caller (call-graph scan); backend.deal returns a revision above every revision dealt before and not below the expected one; update() conditions the index CAS on exactly the expected revision with a strictly newer one.",
         "Uniqueness and real-time order follow from the per-step guarantee by the usual rely/guarantee closure argument, which is not machine-checked. Revisions are assumed not to wrap 2^64. Freshness of Deal relative to the store (C15) is a named assumption."),
 "C04": ("proof", "Ghost state 'pending' records the revision dealt to the current request; every return path of Create/Update/Delete (and of create/update/delete/deal/mustDeal/notify under them) is proved to end with pending == 0, i.e. every dealt revision is reported to the sequencer slot, after the request's batch is closed. The obligation failed on the drift path of update/delete on the original tree (replayed on memkv, repaired by a fix: commit).",
         "Sequential per-request argument; the sequencer goroutine's progress (liveness) and the window assumption revision-committed < 100000 (explicit panic, may_panic) are assumed. TSO.Deal / Creator / KvStorage are interface contracts (assumed here, verified or assumed per engine under C11)."),
 "C08": ("proof", "Ghost state 'floor' is the value under the compact key, defined by the assumed engine contract of Get/PutIfNotExist/CAS/Put/Commit. Proved: setCompactRecord, checkCompactRace, scan, scanner.Compact, backend.compact and backend.Compact never lower the floor and leave it >= the accepted revision; a successful checkCompactRace(rev,false) implies floor <= rev; every worker spawned by scan / run by rangeWithLimit requires that fact. The monotonicity obligation failed on the original tree (replayed on memkv, repaired by a fix: commit).",
         "Engine contract assumed (C11); concurrent compactions on several nodes are not modelled; safety obligations of scan/compact are not generated here (nosafety) and belong to C20."),
 "C13": ("proof", "adjustPartitionsBorders is proved with a loop invariant for any number of partitions given in any order (sort.Slice assumed to permute): the result is chained (each start is the previous end) and every inner border that is a well-formed internal key has revision 0, so no key's versions are split; commonResultReceiver.merge/append/fork/reset/needMore are proved against their sequence specification (merge appends in order and keeps exactly the first limit); stream receivers: every data batch sent names the read revision and has More set, fork keeps stream and revision, getListStreamEnd builds the terminator, the RangeStream goroutine sends the terminator last and closes the stream. One obligation is a recorded finding: GetPartitions advertises engine borders unadjusted.",
         "Borders are assumed decodable (>= 13 bytes). The composition 'per-piece snapshot + merge in piece order = snapshot of the interval' relies on the C03 worker contract (assumed here) and is argued in DESIGN.md, not machine-checked. Duplicates caused by a worker retry after batches were already streamed are outside the property's quantifier."),
 "C05": ("proof", "The event cache: a monitor invariant on Ring (shape, non-nil slots, strictly increasing revisions over the live window) is assumed at Lock/RLock and re-proved at Unlock; Add appends and evicts only when full; FindEvents classifies empty/high/low exactly and otherwise returns exactly the cached events with revision >= the target, in order, across the wrap-around (both copy branches); the slot arithmetic i - rbase(i,l) is used opaquely through two lemmas proved from its definition (non-linear, z3 5.1). Lockset obligations: every read/write of s, e and the slots happens under the ring's lock in the matching mode.",
         "Partly decided: the interleavings of watch registration with concurrent writes, consumer speeds and the hub's asynchronous drop are not decided by this check (see DESIGN.md C05); Add's precondition 'revision above everything cached' is an assumption justified by the single caller (call-graph obligation) and the sequencer order; fewer than 2^62 events are cached."),
 "C16": ("proof", "The three transaction recognisers are proved sound and complete w.r.t. spec predicates for the four single-key shapes Kubernetes issues (compare key = put/delete key = failure-range key, no range_end, MOD/EQUAL compare), for all wire-decodable transactions; Txn is proved to make at most one backend call, none for a follower, exactly one for a supported shape on the leader, and to reject every other shape with an error without touching backend or proxy. Soundness failed on the original tree (replayed, repaired by a fix: commit).",
         "Protobuf oneof getters are modelled from the generated code's shape; repeated fields decoded from the wire have no nil elements; response shaping in the backend shim (header, kv in the failure branch, count/more) is not yet under contract; put flags (ignore_value, ignore_lease, prev_kv) are outside the shape predicates."),
 "C18": ("proof", "Per-request ghost flags: leader_checked is set only by IsLeader() returning true, synced only by SyncReadRevision() returning nil. Every call of a backend write, Compact or Watch in the etcd and native handlers (Txn, Create, Update, Delete, Compact, Watch, compactLoop, watcher.Watch) requires leader_checked; every backend read (Get, List, Count, GetPartitions, ListByStream in Range, Get, Range, Count, ListPartition, RangeStream, watcher.List) requires synced; followers and failed syncs leave the backend call counters unchanged.",
         "Not decided: that a successful sync reflects every write committed before the read began when concurrent readers share one fetch (singleflight) -- no contract of it lets this be stated; the proxy forward path is counted, not verified; safety obligations of the handlers belong to C20 (nosafety here)."),
}
m = {
 "version": 1,
 "setup_cmd": "cd /verif/kbv && GOFLAGS=-mod=mod GOPROXY=off GOSUMDB=off GOTOOLCHAIN=local go build -o ../bin/kbv .",
 "hooks": {"guard": "verif",
           "enable": "kbv loads the packages with -tags=verif; the hooks are the comment-only contract files pkg/**/zz_contracts_verif.go (//go:build verif), they add no declarations",
           "baseline_off_cmd": "cd /repo && go test -vet=off -count=1 -timeout 25m ./...",
           "source_commits": subprocess.run("git -C /repo log --format=%H --grep='^verif hook'", shell=True, capture_output=True, text=True).stdout.split(),
           "add_only": True},
 "engines": [{"name": "kbv", "path": "/verif/kbv", "serves_properties": sorted(claims),
              "kind_free_text": "contract-based deductive verifier for Go written for this task: go/ssa -> verification conditions (passive weakest-precondition style encoding, loop invariants with inferred frames, modular callee contracts, ghost state, two-state guarantees for atomics, monitor invariants) discharged by z3 4.8.12 / z3 5.1.0 / cvc5 1.0.3 raced per obligation; counterexamples replayed on the real code with go test -overlay"}],
 "checks": [], "not_applicable": [],
 "notes": "DESIGN.md explains the approach; known_findings.txt lists repaired and recorded defects; seeded/ holds the breaking changes used to test the checks."
}
na_reason = {"C15": "relates an external engine's clock to a counter of a process that no longer exists: no function contract within reach can state or decide it (DESIGN.md, C15); carried as a named assumption by C01/C02/C07"}
for p in props:
    i = p['id']
    if i in claims and i in cfg:
        cat, text, note = claims[i]
        m['checks'].append({"property_id": i, "quick_cmd": "./check.sh %s quick" % i, "thorough_cmd": "./check.sh %s thorough" % i,
            "evidence_file": "/verif/evidence/%s.json" % i, "engine": "kbv",
            "replay_cmd_template": "cat {path}",
            "level_claimed": {"category": cat, "text": text, "design_ref": "DESIGN.md section 3, " + i},
            "level_note": note, "technique": T})
    else:
        m['not_applicable'].append({"property_id": i, "reason": na_reason.get(i, "not claimed yet: the contracts for this property are still being built (DESIGN.md section 3); nothing is asserted about it")})
json.dump(m, open('/verif/MANIFEST.json', 'w'), indent=1)
print("claimed:", [c['property_id'] for c in m['checks']])
