#!/usr/bin/env python3
# usage: seed_meta.py <seed-id> <agent-out-dir> : writes /verif/seeded/<id>/meta.json from the agent's meta.json and confirm.log
import json, sys, os, re
sid, out = sys.argv[1], sys.argv[2]
d = '/verif/seeded/' + sid
a = json.load(open(os.path.join(out, 'meta.json')))
log = open(os.path.join(d, 'confirm.log')).read()
demo_path = open(os.path.join(out, 'demo_path.txt')).read().strip()
det = [l for l in log.splitlines() if l.startswith('VIOLATION')]
fails = [l for l in log.splitlines() if l.startswith('FAILED')]
cmds = a.get('commands') or a.get('agent_commands') or []
m = {
 "property": a.get("property"),
 "summary": a.get("summary"),
 "needs": a.get("needs"),
 "origin": "written by an independent sub-agent given only the property text and a scratch worktree",
 "agent_commands": cmds,
 "confirmed_by": "tools/seed_check.sh %s: demo passes on the unmodified tree, fails with the patch; go build ./... and the pinned tests of pkg/backend, pkg/server, pkg/storage, pkg/endpoint, pkg/metrics pass with the patch; then the property's check was run against the patched scratch worktree (confirm.log)" % sid,
 "demo_file": os.path.basename(demo_path),
 "demo_path": demo_path,
 "detected": det[:6],
 "failed_obligations": [re.sub(r'\s+\[.*', '', l[len('FAILED '):]) for l in fails][:12],
 "detected_count": len(det),
 "canary_for": sorted(set(re.findall(r"^VIOLATION property=(C\d+)", log, re.M))),
}
json.dump(m, open(os.path.join(d, 'meta.json'), 'w'), indent=1)
print(sid, "detected" if det else "MISSED", len(det))
