import sys,re,os
patch=sys.argv[1]
claimed=set('C01 C02 C03 C04 C05 C06 C07 C08 C09 C10 C11 C12 C13 C14 C16 C17 C18 C19 C20'.split())
# touched functions per package dir
touched={}
cur=None
for l in open(patch):
    m=re.match(r'\+\+\+ b/(.*)/[^/]+\.go',l)
    if m: cur=m.group(1); touched.setdefault(cur,set()); continue
    if cur is None: continue
    for m in re.finditer(r'func (?:\([^)]*\)\s*)?([A-Za-z_][A-Za-z0-9_]*)\s*\(', l):
        touched[cur].add(m.group(1))
props=set(); fallback=set()
for d,fns in touched.items():
    f='/repo/'+d+'/zz_contracts_verif.go'
    if not os.path.exists(f): continue
    name=None
    hit=False
    for l in open(f):
        m=re.match(r'//@\s*func\s+(\S+)', l)
        if m:
            full=m.group(1).rsplit('(',1)[0]
            name=re.sub(r'\$.*','',full.split('.')[-1].strip(')'))
            continue
        m=re.match(r'//@\s+props\s+(.*)',l)
        if m:
            ps=set(m.group(1).split())
            fallback|=ps
            if name in fns: props|=ps; hit=True
    contracted=set()
    for l in open(f):
        m=re.match(r'//@\s*func\s+(\S+)', l)
        if m: contracted.add(re.sub(r'\$.*','',m.group(1).rsplit('(',1)[0].split('.')[-1].strip(')')))
    if not hit or (fns-contracted): props|=fallback
print(' '.join(sorted(props&claimed)))
