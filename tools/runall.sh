#!/bin/bash
# runs the quick check of every claimed property; prints one line each
cd /verif
for p in $(python3 -c "import json;print(' '.join(c['property_id'] for c in json.load(open('MANIFEST.json'))['checks']))"); do
  ./check.sh $p quick 2>&1 | grep -E "^(VIOLATION|KNOWN-FINDING|TOOL-ERROR|$p quick)" | cut -c1-200
done
