#!/bin/bash
# usage: canaries.sh <property> <repo>
# Thorough tier only: the seeded breaking changes recorded for this property must still be
# detected. Each is applied to a scratch copy of <repo>'s working tree (outside /repo and /verif,
# removed afterwards) and the property's check is run against the copy; it has to report a
# violation. A seed that no longer applies to the tree is skipped (the tree has moved on).
# Prints one line per canary and a summary "CANARIES property=<id> detected=<n> missed=<m> skipped=<k>";
# exits 3 if a canary that applies is not detected.
set -u
PROP="$1"; REPO="${2:-/repo}"
cd "$(dirname "$0")/.."
T=$(mktemp -d "${TMPDIR:-/tmp}/kbv-canary-XXXXXX")
trap 'rm -rf "$T"' EXIT
det=0; miss=0; skip=0
for meta in seeded/*/meta.json; do
  python3 - "$meta" "$PROP" <<'PY' || continue
import json,sys
m=json.load(open(sys.argv[1]))
sys.exit(0 if sys.argv[2] in m.get('canary_for',[]) else 1)
PY
  d=$(dirname "$meta"); id=$(basename "$d")
  rm -rf "$T/repo"; mkdir -p "$T/repo"
  rsync -a --exclude .git "$REPO"/ "$T/repo"/
  if ! (cd "$T/repo" && git apply "$OLDPWD/$d/patch.diff" 2>/dev/null); then
    echo "CANARY-SKIPPED $id: the change no longer applies to this tree"; skip=$((skip+1)); continue
  fi
  out=$(KBV_WORK="$T/work" bin/kbv check -prop "$PROP" -repo "$T/repo" -no-evidence -no-replay -no-retry 2>&1); rc=$?
  if [ $rc -eq 1 ]; then
    echo "CANARY-DETECTED $id: $(echo "$out" | grep -m1 '^FAILED' | cut -c8-150)"; det=$((det+1))
  else
    echo "CANARY-MISSED $id (exit $rc): the seeded change was not reported"; miss=$((miss+1))
  fi
done
echo "CANARIES property=$PROP detected=$det missed=$miss skipped=$skip"
[ $miss -eq 0 ] || exit 3
