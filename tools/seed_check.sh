#!/bin/bash
# usage: seed_check.sh <seed-id> <agent-out-dir> <prop> [<prop>...]
# Confirms a seeded breaking change in a scratch worktree and runs the checks against it.
set -u
ID="$1"; OUT="$2"; shift 2
export GOFLAGS=-mod=mod GOPROXY=off GOSUMDB=off GOTOOLCHAIN=local
W=/tmp/seedchk_$ID
git -C /repo worktree remove --force $W 2>/dev/null
git -C /repo worktree add -q $W HEAD || exit 2
DEMO=$(cat $OUT/demo_path.txt | tr -d '\n ')
DEMOFILE=$(ls $OUT/*_test.go | head -1)
PKGDIR=$(dirname $DEMO)
mkdir -p /verif/seeded/$ID
cp $OUT/patch.diff /verif/seeded/$ID/patch.diff
cp $DEMOFILE /verif/seeded/$ID/$(basename $DEMO)
LOG=/verif/seeded/$ID/confirm.log; : > $LOG
cd $W
cp $DEMOFILE $W/$DEMO
echo "== demo on the unmodified tree (must pass)" | tee -a $LOG
(go test -vet=off -count=1 -timeout 10m ./$PKGDIR/ -run 'Demo|demo|ZZ|KBV' 2>&1 | tail -3) | tee -a $LOG
echo "== apply patch" | tee -a $LOG
git apply $OUT/patch.diff 2>&1 | tee -a $LOG
go build ./... 2>&1 | tail -3 | tee -a $LOG
echo "== demo with the change (must fail)" | tee -a $LOG
(go test -vet=off -count=1 -timeout 10m ./$PKGDIR/ -run 'Demo|demo|ZZ|KBV' 2>&1 | grep -E "^(--- FAIL|FAIL|ok|PASS)" | head -5) | tee -a $LOG
rm -f $W/$DEMO
echo "== existing tests with the change (must pass)" | tee -a $LOG
(go test -vet=off -count=1 -timeout 25m ./pkg/backend/... ./pkg/server/... ./pkg/storage/... ./pkg/endpoint/... ./pkg/metrics/... 2>&1 | grep -v "no test files" | grep -E "^(FAIL|ok|---)" ) | tee -a $LOG
cd /verif
for P in "$@"; do
  echo "== check $P against the changed tree" | tee -a $LOG
  bin/kbv check -prop $P -repo $W -no-evidence 2>&1 | grep -E "^(FAILED|VIOLATION|KNOWN|TOOL|$P )" | cut -c1-260 | tee -a $LOG
done
git -C /repo worktree remove --force $W
