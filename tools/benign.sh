#!/bin/bash
# usage: tools/benign.sh [<id>...]
# The must-stay-quiet corpus: behaviour-preserving edits written by independent sub-agents
# (benign/<id>/patchN.diff, with the argument why the property still holds in meta.json). Each is
# applied to a scratch worktree of /repo's HEAD (outside /repo and /verif, removed afterwards) and
# every check that has contracts in the touched packages is run against it. Prints one line per
# patch: QUIET or ALARM with the failed obligations. benign/expected_alarms.txt lists the patches
# the checks are known to alarm on (loop rewrites whose invariants are tied to the old shape).
set -u
cd "$(dirname "$0")/.."
export GOFLAGS=-mod=mod GOPROXY=off GOSUMDB=off GOTOOLCHAIN=local
IDS="$@"; [ -n "$IDS" ] || IDS=$(ls benign | grep -v '\.txt$')
T=$(mktemp -d "${TMPDIR:-/tmp}/kbv-benign-XXXXXX")
trap 'git -C /repo worktree remove --force "$T/w" 2>/dev/null; rm -rf "$T"' EXIT
for b in $IDS; do
  for p in benign/$b/patch*.diff; do
    n=$(basename $p .diff)
    git -C /repo worktree remove --force "$T/w" 2>/dev/null
    git -C /repo worktree add -q "$T/w" HEAD || exit 2
    if ! (cd "$T/w" && git apply "$OLDPWD/$p" 2>/dev/null); then echo "SKIPPED $b/$n: no longer applies"; continue; fi
    props=$(python3 tools/benign_props.py $p)
    out=$(echo $props | tr ' ' '\n' | xargs -P "${BENIGN_JOBS:-4}" -I{} sh -c "KBV_WORK='$T/work' bin/kbv check -prop {} -repo '$T/w' -no-evidence -no-replay 2>&1 | grep -E '^(FAILED|TOOL)' | cut -c1-160 | sed 's/^/    {}: /'")
    if [ -z "$out" ]; then echo "QUIET $b/$n ($props)"; else echo "ALARM $b/$n ($props)"; printf "%s\n" "$out"; fi
  done
done
