; ---- internal key encoding (C10) ----
(define-fun magic_byte ((i Int)) (_ BitVec 8) (ite (= i 0) #x57 (ite (= i 1) #xfb (ite (= i 2) #x80 #x8b))))
; byte i of  magic || key || '$' || big-endian(revision)
(define-fun enc_byte ((k!arr (Array Int (_ BitVec 8))) (k!off Int) (k!len Int) (r (_ BitVec 64)) (i Int)) (_ BitVec 8)
  (ite (< i 4) (magic_byte i)
  (ite (< i (+ 4 k!len)) (select k!arr (+ k!off (- i 4)))
  (ite (= i (+ 4 k!len)) #x24
       (be_byte r (- i (+ 5 k!len)))))))
; x is the encoding of (k, r)
(define-fun is_enc ((x!arr (Array Int (_ BitVec 8))) (x!off Int) (x!len Int) (k!arr (Array Int (_ BitVec 8))) (k!off Int) (k!len Int) (r (_ BitVec 64))) Bool
  (and (= x!len (+ k!len 13))
       (forall ((i Int)) (=> (and (<= 0 i) (< i x!len)) (= (select x!arr (+ x!off i)) (enc_byte k!arr k!off k!len r i))))))
; every byte of k is greater than '$' (the documented key alphabet)
(define-fun in_alphabet ((k!arr (Array Int (_ BitVec 8))) (k!off Int) (k!len Int)) Bool
  (forall ((i Int)) (=> (and (<= 0 i) (< i k!len)) (bvugt (select k!arr (+ k!off i)) #x24))))
