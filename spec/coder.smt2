; ---- internal key encoding (C10) ----
(define-fun magic_byte ((i Int)) (_ BitVec 8) (ite (= i 0) #x57 (ite (= i 1) #xfb (ite (= i 2) #x80 #x8b))))
; byte i of  magic || key || '$' || big-endian(revision)
(define-fun enc_byte ((k!arr (Array Int (_ BitVec 8))) (k!off Int) (k!len Int) (r (_ BitVec 64)) (i Int)) (_ BitVec 8)
  (ite (< i 4) (magic_byte i)
  (ite (< i (+ 4 k!len)) (select k!arr (+ k!off (- i 4)))
  (ite (= i (+ 4 k!len)) #x24
       (be_byte r (- i (+ 5 k!len)))))))
; x is the encoding of (k, r)
(define-fun is_enc ((x!arr (Array Int (_ BitVec 8))) (x!off Int) (x!len Int) (k!arr (Array Int (_ BitVec 8))) (k!off Int) (k!len Int) (r (_ BitVec 64))) Bool
  (and (= x!len (+ k!len 13))
       (forall ((j Int)) (! (=> (and (<= x!off j) (< j (+ x!off x!len))) (= (select x!arr j) (enc_byte k!arr k!off k!len r (- j x!off)))) :pattern ((select x!arr j))))))
; every byte of k is greater than '$' (the documented key alphabet)
(define-fun in_alphabet ((k!arr (Array Int (_ BitVec 8))) (k!off Int) (k!len Int)) Bool
  (forall ((j Int)) (! (=> (and (<= k!off j) (< j (+ k!off k!len))) (bvugt (select k!arr j) #x24)) :pattern ((select k!arr j)))))
; index (0 = most significant) of the first big-endian byte in which two revisions differ (7 if none of the first 7 differ)
(define-fun first_diff_byte ((a (_ BitVec 64)) (b (_ BitVec 64))) Int
  (ite (not (= (be_byte a 0) (be_byte b 0))) 0 (ite (not (= (be_byte a 1) (be_byte b 1))) 1 (ite (not (= (be_byte a 2) (be_byte b 2))) 2
  (ite (not (= (be_byte a 3) (be_byte b 3))) 3 (ite (not (= (be_byte a 4) (be_byte b 4))) 4 (ite (not (= (be_byte a 5) (be_byte b 5))) 5
  (ite (not (= (be_byte a 6) (be_byte b 6))) 6 7))))))))
; x passes both format checks of Decode (magic number and split byte)
(define-fun is_internal_key ((x!arr (Array Int (_ BitVec 8))) (x!off Int) (x!len Int)) Bool
  (and (>= x!len 13) (= (select x!arr x!off) #x57) (= (select x!arr (+ x!off 1)) #xfb) (= (select x!arr (+ x!off 2)) #x80) (= (select x!arr (+ x!off 3)) #x8b)
       (= (select x!arr (+ x!off (- x!len 9))) #x24)))
; the revision field (last 8 bytes, big endian) of an internal key
(define-fun key_rev ((x!arr (Array Int (_ BitVec 8))) (x!off Int) (x!len Int)) (_ BitVec 64) (be64 x!arr (+ x!off (- x!len 8))))
