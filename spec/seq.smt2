; ---- order facts about an iterator's ghost sequence, used opaquely (C03, C07) ----
; pair_hint(i, j) is an instantiation trigger: mentioning it makes the facts about the pair
; (i, j) available; it constrains nothing.
(declare-fun pair_hint (Int Int) Bool)
(assert (forall ((i Int) (j Int)) (! (pair_hint i j) :pattern ((pair_hint i j)))))
; sorted_seq: records are sorted by user-key rank first, revision second
; opaque-begin sorted_seq
(define-fun sorted_seq ((uk (Array Int Int)) (rev (Array Int (_ BitVec 64))) (n Int)) Bool
  (forall ((i Int) (j Int)) (=> (and (<= 0 i) (< i j) (< j n))
     (or (< (select uk i) (select uk j)) (and (= (select uk i) (select uk j)) (bvult (select rev i) (select rev j)))))))
; opaque-else
(declare-fun sorted_seq ((Array Int Int) (Array Int (_ BitVec 64)) Int) Bool)
(assert (forall ((uk (Array Int Int)) (rev (Array Int (_ BitVec 64))) (n Int) (i Int) (j Int))
  (! (=> (and (sorted_seq uk rev n) (<= 0 i) (< i j) (< j n))
         (or (< (select uk i) (select uk j)) (and (= (select uk i) (select uk j)) (bvult (select rev i) (select rev j)))))
     :pattern ((sorted_seq uk rev n) (pair_hint i j)))))
; opaque-end
; ranks_are_keys: two records have the same rank exactly when their user keys (bytes 4 .. len-9 of
; the internal key) are equal
; opaque-begin ranks_are_keys
(define-fun ranks_are_keys ((uk (Array Int Int)) (keys (Array Int Slice)) (h (Array Int (Array Int (_ BitVec 8)))) (n Int)) Bool
  (forall ((i Int) (j Int)) (=> (and (<= 0 i) (< i n) (<= 0 j) (< j n))
     (= (= (select uk i) (select uk j))
        (bytes_eq (select h (s_obj (select keys i))) (+ (s_off (select keys i)) 4) (- (s_len (select keys i)) 13)
                  (select h (s_obj (select keys j))) (+ (s_off (select keys j)) 4) (- (s_len (select keys j)) 13))))))
; opaque-else
(declare-fun ranks_are_keys ((Array Int Int) (Array Int Slice) (Array Int (Array Int (_ BitVec 8))) Int) Bool)
(assert (forall ((uk (Array Int Int)) (keys (Array Int Slice)) (h (Array Int (Array Int (_ BitVec 8)))) (n Int) (i Int) (j Int))
  (! (=> (and (ranks_are_keys uk keys h n) (<= 0 i) (< i n) (<= 0 j) (< j n))
     (= (= (select uk i) (select uk j))
        (bytes_eq (select h (s_obj (select keys i))) (+ (s_off (select keys i)) 4) (- (s_len (select keys i)) 13)
                  (select h (s_obj (select keys j))) (+ (s_off (select keys j)) 4) (- (s_len (select keys j)) 13))))
     :pattern ((ranks_are_keys uk keys h n) (pair_hint i j)))))
; opaque-end
