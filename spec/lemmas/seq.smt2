; reveal sorted_seq ranks_are_keys
; The on-demand instances used by the scan-loop proofs follow from the definitions.
(declare-const uk (Array Int Int))
(declare-const rev (Array Int (_ BitVec 64)))
(declare-const keys (Array Int Slice))
(declare-const h (Array Int (Array Int (_ BitVec 8))))
(declare-const n Int)
(declare-const i Int)
(declare-const j Int)
; lemma sorted_instance   a sorted sequence orders every pair
(assert (sorted_seq uk rev n))
(assert (and (<= 0 i) (< i j) (< j n)))
(assert (not (or (< (select uk i) (select uk j)) (and (= (select uk i) (select uk j)) (bvult (select rev i) (select rev j))))))
; lemma ranks_instance   equal ranks are equal user keys for every pair
(assert (ranks_are_keys uk keys h n))
(assert (and (<= 0 i) (< i n) (<= 0 j) (< j n)))
(assert (not (= (= (select uk i) (select uk j))
        (bytes_eq (select h (s_obj (select keys i))) (+ (s_off (select keys i)) 4) (- (s_len (select keys i)) 13)
                  (select h (s_obj (select keys j))) (+ (s_off (select keys j)) 4) (- (s_len (select keys j)) 13)))))
