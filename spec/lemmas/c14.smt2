; Specification-level lemmas for the leader lock over the engine contract's batch semantics:
; the store maps the election key to an optional value (set / val); a batch with one
; conditional operation applies iff its condition holds, atomically.
(declare-sort V 0)
(declare-const set0 Bool)
(declare-const val0 V)
(declare-const a V)
(declare-const b V)
(declare-const seen V)
; outcome of PutIfNotExist(x): applies iff the key is absent
(define-fun pine_ok ((s Bool)) Bool (not s))
; outcome of CAS(new, old): applies iff the key is present with exactly old
(define-fun cas_ok ((s Bool) (v V) (old V)) Bool (and s (= v old)))
; lemma create_at_most_one   two creates in either order: the second finds the key present
(assert (pine_ok set0))
(assert (pine_ok true))
; lemma update_from_same_observation   two updates conditioned on the same observed record, writing different records: the second fails after the first succeeded
(assert (not (= a seen)))
(assert (cas_ok set0 val0 seen))
(assert (cas_ok true a seen))
; lemma update_after_foreign_write   an update succeeds only if the record is still what the candidate read
(assert (not (= val0 seen)))
(assert (cas_ok set0 val0 seen))
; lemma canary_same_bytes expect sat   two updates from one observation can both succeed only if the first wrote identical bytes
(assert (cas_ok set0 val0 seen))
(assert (cas_ok true a seen))
