; reveal rbase
; The two facts about rbase that the ring proofs use, proved from its definition.
(declare-const i Int)
(declare-const j Int)
(declare-const l Int)
(assert (> l 0))
(assert (>= i 0))
; lemma rbase_bounds   0 <= rbase(i,l) <= i < rbase(i,l)+l
(assert (not (and (<= 0 (rbase i l)) (<= (rbase i l) i) (< i (+ (rbase i l) l)))))
; lemma rbase_window   within one window of length l the lap start changes by 0 or by l
(assert (and (<= i j) (< j (+ i l))))
(assert (not (or (= (rbase j l) (rbase i l)) (= (rbase j l) (+ (rbase i l) l)))))
