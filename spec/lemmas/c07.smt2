; Read-preservation lemmas behind the compaction contract, over an abstract store:
; P(k, r) = "a version record of key k at revision r is present", D(k, r) = "it is a deletion marker".
; newest(k, R', r): r is the newest present version of k at or below R'.
; read(k, R') is present iff such an r exists and is not a deletion.
(declare-sort K 0)
(declare-fun P (K (_ BitVec 64)) Bool)
(declare-fun D (K (_ BitVec 64)) Bool)
(declare-fun P2 (K (_ BitVec 64)) Bool)
(declare-const k0 K)
(declare-const d (_ BitVec 64))
(declare-const m (_ BitVec 64))
(declare-const R (_ BitVec 64))
(declare-const k K)
(declare-const Rq (_ BitVec 64))
(declare-const r (_ BitVec 64))
(define-fun newest ((pp Int) (kk K) (rq (_ BitVec 64)) (rr (_ BitVec 64))) Bool
  (and (ite (= pp 1) (P kk rr) (P2 kk rr)) (bvule rr rq)
       (forall ((u (_ BitVec 64))) (=> (and (ite (= pp 1) (P kk u) (P2 kk u)) (bvule u rq)) (bvule u rr)))))
; P2 is P without the version (k0, d)
(assert (forall ((kk K) (u (_ BitVec 64))) (= (P2 kk u) (and (P kk u) (not (and (= kk k0) (= u d)))))))
(assert (bvuge Rq R))
; lemma superseded_version   deleting a version that has a newer version <= R leaves the newest version <= R' of every key unchanged for every R' >= R
(assert (and (P k0 d) (P k0 m) (bvult d m) (bvule m R)))
(assert (not (= (newest 1 k Rq r) (newest 2 k Rq r))))
; lemma marker_without_older_versions   deleting a deletion marker <= R once no older version of the key is left keeps every read at R' >= R: either the newest version is unchanged, or it was that marker (read absent) and now there is none (read absent)
(assert (and (P k0 d) (D k0 d) (bvule d R)))
(assert (forall ((u (_ BitVec 64))) (=> (bvult u d) (not (P k0 u)))))
(assert (not (or (= (newest 1 k Rq r) (newest 2 k Rq r))
                 (and (= k k0) (= r d) (newest 1 k Rq r) (not (exists ((u (_ BitVec 64))) (newest 2 k Rq u)))))))
; lemma marker_canary expect sat   without "no older version is left" the deleted key can reappear (an older live version becomes the newest)
(assert (and (P k0 d) (D k0 d) (bvule d R)))
(assert (not (or (= (newest 1 k Rq r) (newest 2 k Rq r))
                 (and (= k k0) (= r d) (newest 1 k Rq r) (not (exists ((u (_ BitVec 64))) (newest 2 k Rq u)))))))
