; ---- ring buffer index arithmetic (C05) ----
; rbase(i,l) is the start of the lap that position i lies in: i - (i mod l). The ring proofs
; use it opaquely through the two facts below, which are proved from the definition in
; lemmas/ring.smt2 (non-linear arithmetic, z3 5.1); only index() unfolds the definition.
; opaque-begin rbase
(define-fun rbase ((i Int) (l Int)) Int (- i (mod i l)))
; opaque-else
(declare-fun rbase (Int Int) Int)
(assert (forall ((i Int) (l Int)) (! (=> (and (> l 0) (>= i 0)) (and (<= 0 (rbase i l)) (<= (rbase i l) i) (< i (+ (rbase i l) l)))) :pattern ((rbase i l)))))
(assert (forall ((i Int) (j Int) (l Int)) (! (=> (and (> l 0) (<= 0 i) (<= i j) (< j (+ i l))) (or (= (rbase j l) (rbase i l)) (= (rbase j l) (+ (rbase i l) l)))) :pattern ((rbase i l) (rbase j l)))))
; opaque-end
