; ---- byte strings as (array, offset, length) triples ----
(define-fun bytes_eq ((a!arr (Array Int (_ BitVec 8))) (a!off Int) (a!len Int) (b!arr (Array Int (_ BitVec 8))) (b!off Int) (b!len Int)) Bool
  (and (= a!len b!len)
       (forall ((j Int)) (! (=> (and (<= a!off j) (< j (+ a!off a!len))) (= (select a!arr j) (select b!arr (+ b!off (- j a!off))))) :pattern ((select a!arr j))))
       (forall ((j Int)) (! (=> (and (<= b!off j) (< j (+ b!off b!len))) (= (select b!arr j) (select a!arr (+ a!off (- j b!off))))) :pattern ((select b!arr j))))))
; lexicographic strict order with the position of the first difference made explicit
(define-fun lexlt_at ((a!arr (Array Int (_ BitVec 8))) (a!off Int) (a!len Int) (b!arr (Array Int (_ BitVec 8))) (b!off Int) (b!len Int) (p Int)) Bool
  (and (<= 0 p) (<= p a!len) (<= p b!len)
       (forall ((j Int)) (! (=> (and (<= a!off j) (< j (+ a!off p))) (= (select a!arr j) (select b!arr (+ b!off (- j a!off))))) :pattern ((select a!arr j))))
       (forall ((j Int)) (! (=> (and (<= b!off j) (< j (+ b!off p))) (= (select b!arr j) (select a!arr (+ a!off (- j b!off))))) :pattern ((select b!arr j))))
       (or (and (= p a!len) (< p b!len))
           (and (< p a!len) (< p b!len) (bvult (select a!arr (+ a!off p)) (select b!arr (+ b!off p)))))))
(define-fun lexlt ((a!arr (Array Int (_ BitVec 8))) (a!off Int) (a!len Int) (b!arr (Array Int (_ BitVec 8))) (b!off Int) (b!len Int)) Bool
  (exists ((p Int)) (lexlt_at a!arr a!off a!len b!arr b!off b!len p)))
(define-fun bytes_cmp ((a!arr (Array Int (_ BitVec 8))) (a!off Int) (a!len Int) (b!arr (Array Int (_ BitVec 8))) (b!off Int) (b!len Int)) Int
  (ite (bytes_eq a!arr a!off a!len b!arr b!off b!len) 0 (ite (lexlt a!arr a!off a!len b!arr b!off b!len) (- 1) 1)))
(define-fun has_prefix ((a!arr (Array Int (_ BitVec 8))) (a!off Int) (a!len Int) (p!arr (Array Int (_ BitVec 8))) (p!off Int) (p!len Int)) Bool
  (and (<= p!len a!len)
       (forall ((j Int)) (! (=> (and (<= a!off j) (< j (+ a!off p!len))) (= (select a!arr j) (select p!arr (+ p!off (- j a!off))))) :pattern ((select a!arr j))))
       (forall ((j Int)) (! (=> (and (<= p!off j) (< j (+ p!off p!len))) (= (select p!arr j) (select a!arr (+ a!off (- j p!off))))) :pattern ((select p!arr j))))))
; under_prefix is has_prefix behind a name: it unfolds only for the byte strings a query mentions
; (used under quantifiers over events, where unfolding the definition for every index is hopeless)
; opaque-begin under_prefix
(define-fun under_prefix ((a!arr (Array Int (_ BitVec 8))) (a!off Int) (a!len Int) (p!arr (Array Int (_ BitVec 8))) (p!off Int) (p!len Int)) Bool
  (has_prefix a!arr a!off a!len p!arr p!off p!len))
; opaque-else
(declare-fun under_prefix ((Array Int (_ BitVec 8)) Int Int (Array Int (_ BitVec 8)) Int Int) Bool)
(assert (forall ((a (Array Int (_ BitVec 8))) (ao Int) (al Int) (p (Array Int (_ BitVec 8))) (po Int) (pl Int))
  (! (= (under_prefix a ao al p po pl) (has_prefix a ao al p po pl)) :pattern ((under_prefix a ao al p po pl)))))
; opaque-end
(define-fun has_suffix ((a!arr (Array Int (_ BitVec 8))) (a!off Int) (a!len Int) (p!arr (Array Int (_ BitVec 8))) (p!off Int) (p!len Int)) Bool
  (and (<= p!len a!len)
       (forall ((i Int)) (=> (and (<= 0 i) (< i p!len)) (= (select a!arr (+ a!off (- a!len p!len) i)) (select p!arr (+ p!off i)))))))
(define-fun occurs_at ((a!arr (Array Int (_ BitVec 8))) (a!off Int) (a!len Int) (p!arr (Array Int (_ BitVec 8))) (p!off Int) (p!len Int) (k Int)) Bool
  (and (<= 0 k) (<= (+ k p!len) a!len)
       (forall ((i Int)) (=> (and (<= 0 i) (< i p!len)) (= (select a!arr (+ a!off k i)) (select p!arr (+ p!off i)))))))
(define-fun bytes_contains ((a!arr (Array Int (_ BitVec 8))) (a!off Int) (a!len Int) (p!arr (Array Int (_ BitVec 8))) (p!off Int) (p!len Int)) Bool
  (exists ((k Int)) (occurs_at a!arr a!off a!len p!arr p!off p!len k)))
(define-fun str_eq ((a Str) (b Str)) Bool
  (bytes_eq (sarr a) 0 (slen a) (sarr b) 0 (slen b)))
; big-endian 64-bit value of 8 bytes at a!arr[off..off+8)
(define-fun be64 ((a (Array Int (_ BitVec 8))) (off Int)) (_ BitVec 64)
  (concat (select a off) (select a (+ off 1)) (select a (+ off 2)) (select a (+ off 3))
          (select a (+ off 4)) (select a (+ off 5)) (select a (+ off 6)) (select a (+ off 7))))
; byte j (0 = most significant) of a 64-bit value
(define-fun be_byte ((r (_ BitVec 64)) (j Int)) (_ BitVec 8)
  (ite (= j 0) ((_ extract 63 56) r) (ite (= j 1) ((_ extract 55 48) r) (ite (= j 2) ((_ extract 47 40) r) (ite (= j 3) ((_ extract 39 32) r)
  (ite (= j 4) ((_ extract 31 24) r) (ite (= j 5) ((_ extract 23 16) r) (ite (= j 6) ((_ extract 15 8) r) ((_ extract 7 0) r)))))))))
(define-fun be64_of ((a!arr (Array Int (_ BitVec 8))) (a!off Int) (a!len Int)) (_ BitVec 64) (be64 a!arr a!off))
; instantiation hints: uninterpreted predicates; asserting (hint8 t) only makes the term t
; available to pattern-based quantifier instantiation (it constrains nothing that matters)
(declare-fun hint8 ((_ BitVec 8)) Bool)
(declare-fun hint64 ((_ BitVec 64)) Bool)
(declare-fun hintI (Int) Bool)
; the storage key under which the compaction floor is kept (fmt.Sprintf("%s/compact_key", prefix)): opaque
(declare-fun is_compact_key ((Array Int (_ BitVec 8)) Int Int) Bool)
(declare-fun err_is (Iface Iface) Bool)
; d is the events resource directory under prefix p:  d == p ++ "/events/"
(define-fun is_events_dir ((d!arr (Array Int (_ BitVec 8))) (d!off Int) (d!len Int) (p!arr (Array Int (_ BitVec 8))) (p!off Int) (p!len Int)) Bool
  (and (= d!len (+ p!len 8))
       (forall ((j Int)) (! (=> (and (<= d!off j) (< j (+ d!off p!len))) (= (select d!arr j) (select p!arr (+ p!off (- j d!off))))) :pattern ((select d!arr j))))
       (= (select d!arr (+ d!off p!len)) #x2f) (= (select d!arr (+ d!off p!len 1)) #x65) (= (select d!arr (+ d!off p!len 2)) #x76) (= (select d!arr (+ d!off p!len 3)) #x65)
       (= (select d!arr (+ d!off p!len 4)) #x6e) (= (select d!arr (+ d!off p!len 5)) #x74) (= (select d!arr (+ d!off p!len 6)) #x73) (= (select d!arr (+ d!off p!len 7)) #x2f)))
; classification of errors of the TiKV client (opaque: decided by the client library)
(declare-fun tikv_not_found (Iface) Bool)
(declare-fun tikv_write_conflict (Iface) Bool)
; counting function of the records a scan emits, and the index of the last record visible at the
; read revision: defined by recursion over the iterator's ghost sequence inside the contracts
; that use them (definitional axioms, assumed at the loop head)
(declare-fun cnt (Int) Int)
(declare-fun lastvis (Int) Int)
; dead(i): the value of record i of the iterator's ghost sequence is the deletion marker (defined in
; the scan-loop contract through the instances it needs)
(declare-fun dead (Int) Bool)
; lastkept(i): index of the last record among the first i that a compaction scan keeps as "previous"
; (visible at the compaction revision, not expired, not a skipped index record); expired(i): record i
; is an Event record at or below the timeout revision (defined in the scan-loop contract)
(declare-fun lastkept (Int) Int)
(declare-fun expired (Int) Bool)
