#!/bin/bash
# usage: check.sh <property> [quick|thorough]
# Rebuilds kbv when its sources changed, then regenerates and discharges the property's
# obligations from /repo's current working tree.
set -u
cd "$(dirname "$0")"
export GOFLAGS=-mod=mod GOPROXY=off GOSUMDB=off GOTOOLCHAIN=local CARGO_NET_OFFLINE=true PIP_NO_INDEX=1
PROP="$1"; TIER="${2:-${VERIF_TIER:-quick}}"
if [ ! -x bin/kbv ] || [ -n "$(find kbv -newer bin/kbv -name '*.go' 2>/dev/null | head -1)" ]; then
  (cd kbv && go build -o ../bin/kbv .) || { echo "TOOL-ERROR: cannot build kbv"; exit 2; }
fi
export KBV_WORK="${KBV_WORK:-/verif/.work}"
exec bin/kbv check -prop "$PROP" -tier "$TIER" -repo "${KBV_REPO:-/repo}"
