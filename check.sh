#!/bin/bash
# usage: check.sh <property> [quick|thorough]
# Rebuilds kbv when its sources changed, then regenerates and discharges the property's
# obligations from /repo's current working tree.
set -u
cd "$(dirname "$0")"
export GOFLAGS=-mod=mod GOPROXY=off GOSUMDB=off GOTOOLCHAIN=local CARGO_NET_OFFLINE=true PIP_NO_INDEX=1
PROP="$1"; TIER="${2:-${VERIF_TIER:-quick}}"
if [ ! -x bin/kbv ] || [ -n "$(find kbv -newer bin/kbv -name '*.go' 2>/dev/null | head -1)" ]; then
  (cd kbv && go build -o ../bin/kbv .) || { echo "TOOL-ERROR: cannot build kbv"; exit 2; }
fi
export KBV_WORK="${KBV_WORK:-/verif/.work}"
REPO="${KBV_REPO:-/repo}"
if [ "$TIER" != "thorough" ]; then
  exec bin/kbv check -prop "$PROP" -tier "$TIER" -repo "$REPO"
fi
# thorough: longer limits, every back end must answer, and afterwards the must-fail corpus: the
# seeded breaking changes recorded for this property (seeded/*/meta.json, canary_for) are applied
# to scratch copies of the tree and have to be reported
bin/kbv check -prop "$PROP" -tier "$TIER" -repo "$REPO"; rc=$?
[ $rc -eq 0 ] || exit $rc
out=$(tools/canaries.sh "$PROP" "$REPO"); crc=$?
echo "$out"
python3 - "$PROP" "$out" <<'PY'
import json, re, sys
prop, out = sys.argv[1], sys.argv[2]
m = re.search(r'detected=(\d+) missed=(\d+) skipped=(\d+)', out)
p = '/verif/evidence/%s.json' % prop
try:
    e = json.load(open(p))
    if m:
        e['coverage']['canaries_detected'] = int(m.group(1))
        e['coverage']['canaries_missed'] = int(m.group(2))
        e['coverage']['canaries_skipped'] = int(m.group(3))
        e['coverage']['canaries'] = [l for l in out.splitlines() if l.startswith('CANARY-')]
    json.dump(e, open(p, 'w'), indent=1)
except Exception as ex:
    print("NOTE: canary results not merged into the evidence file:", ex)
PY
if [ $crc -ne 0 ]; then
  echo "TOOL-ERROR: a seeded breaking change that applies to this tree was not reported: the check cannot vouch for property $PROP"
  exit 2
fi
exit 0
