package main

import (
	"fmt"
	"go/ast"
	"go/token"
	"go/types"
	"sort"
	"strings"

	"golang.org/x/tools/go/ssa"
)

// ---------- lvalues ----------

type lvKind int

const (
	lvField  lvKind = iota // field heap F.T.f at object obj
	lvElem                 // element heap E.T at (obj, idx)
	lvCell                 // local escaping variable
	lvGlobal               // package variable
	lvDeref                // generic pointer to non-struct: heap P.T at obj
	lvBad
)

type pathStep struct {
	so  *Sort // datatype sort of the container
	idx int
}

type LV struct {
	base ssa.Value // the pointer / slice value whose object is addressed (nil: unknown)
	kind lvKind
	heap string
	hso  *Sort // sort of the heap variable
	obj  string
	idx  string
	vso  *Sort // sort of the value stored in the heap slot (before path)
	path []pathStep
	so   *Sort // sort of the addressed value
	goT  types.Type
}

func (g *Gen) where(pos token.Pos) string {
	if !pos.IsValid() {
		return ""
	}
	p := g.prog.ssa.Fset.Position(pos)
	f := p.Filename
	if i := strings.Index(f, "/pkg/"); i >= 0 {
		f = f[i+1:]
	}
	return fmt.Sprintf("%s:%d", f, p.Line)
}

// ---------- values ----------

func (g *Gen) val(v ssa.Value) T {
	if t, ok := g.vals[v]; ok {
		return t
	}
	switch c := v.(type) {
	case *ssa.Const:
		so := g.te.sortOf(c.Type())
		if c.Value == nil {
			return T{S: g.te.zero(so), So: so, GoT: c.Type()}
		}
		t := g.constTerm(c.Value, c.Type(), so)
		t.GoT = c.Type()
		return t
	case *ssa.Function:
		return T{S: g.funcRef(c), So: SRef, GoT: c.Type()}
	case *ssa.Global:
		// address of a global used as a value
		return T{S: g.funcRefName("globaladdr." + c.Name()), So: SRef, GoT: c.Type()}
	case *ssa.FieldAddr:
		b := g.val(c.X)
		return T{S: app("interior", b.S, fmt.Sprint(c.Field+1)), So: SRef, GoT: c.Type()}
	case *ssa.IndexAddr:
		b := g.val(c.X)
		i := g.val(c.Index)
		if b.So.K == KSlice {
			return T{S: app("interior", app("s_obj", b.S), app("+", app("s_off", b.S), g.toInt(i))), So: SRef, GoT: c.Type()}
		}
		return T{S: app("interior", b.S, g.toInt(i)), So: SRef, GoT: c.Type()}
	case *ssa.Builtin:
		return T{S: "0", So: SRef, GoT: c.Type()}
	}
	// undefined value (e.g. instruction in an unreachable / unsupported context)
	so := g.te.sortOf(v.Type())
	t := T{S: g.fresh("undef."+v.Name(), so), So: so, GoT: v.Type()}
	g.vals[v] = t
	g.note("value %s (%T) used before definition: havocked", v.Name(), v)
	return t
}

func (g *Gen) funcRefName(n string) string {
	name := "|fn." + sanitize(n) + "|"
	g.declare(name, SRef)
	return name
}

func (g *Gen) funcRef(f *ssa.Function) string {
	return g.funcRefName(f.String())
}

func (g *Gen) toInt(t T) string {
	if t.So.K == KBV {
		return app("bv2nat", t.S)
	}
	return t.S
}

func (g *Gen) setVal(v ssa.Value, term string) T {
	so := g.te.sortOf(v.Type())
	name := g.define(v.Name(), so, term)
	t := T{S: name, So: so, GoT: v.Type()}
	g.vals[v] = t
	return t
}

func (g *Gen) havocVal(v ssa.Value) T {
	so := g.te.sortOf(v.Type())
	t := T{S: g.fresh(v.Name(), so), So: so, GoT: v.Type()}
	g.vals[v] = t
	g.assumeTypeInv(t, nil)
	return t
}

// assumeTypeInv adds the facts every well-typed Go value satisfies.
func (g *Gen) assumeTypeInv(t T, st State) {
	switch t.So.K {
	case KSlice:
		g.assume(app("wf_slice", t.S))
		if st != nil {
			g.assume(app("<=", app("s_obj", t.S), g.stGet(st, "alloc", SMath)))
		}
	case KInt:
		if t.So.W == 32 {
			g.assume(app("in32", t.S))
		} else if t.So.W > 0 {
			g.assume(app("in64", t.S))
		}
	case KRef:
		g.assume(app(">=", t.S, "0"))
		if st != nil {
			if _, isFn := t.GoT.(*types.Signature); !isFn && t.GoT != nil {
				g.assume(app("<=", t.S, g.stGet(st, "alloc", SMath)))
			}
		}
	case KStr:
		g.assume(and(app(">=", app("slen", t.S), "0"), app("<=", app("slen", t.S), "281474976710656")))
	case KData:
		for _, f := range t.So.Fields {
			if f.So.K == KSlice || f.So.K == KInt || f.So.K == KStr || f.So.K == KData {
				g.assumeTypeInv(T{S: app(f.Acc, t.S), So: f.So, GoT: f.GoT}, st)
			}
		}
	}
}

// ---------- lvalue resolution ----------

func (g *Gen) resolveAddr(v ssa.Value, st State) LV {
	switch a := v.(type) {
	case *ssa.FieldAddr:
		pt := a.X.Type().Underlying().(*types.Pointer)
		stT := pt.Elem().Underlying().(*types.Struct)
		f := stT.Field(a.Field)
		fso := g.te.sortOf(f.Type())
		// interior pointer into an enclosing value?
		switch a.X.(type) {
		case *ssa.FieldAddr, *ssa.IndexAddr:
			outer := g.resolveAddr(a.X, st)
			if outer.kind == lvBad {
				return outer
			}
			cso := outer.so
			if cso.K != KData {
				return LV{kind: lvBad}
			}
			outer.path = append(append([]pathStep{}, outer.path...), pathStep{so: cso, idx: a.Field})
			outer.so = fso
			outer.goT = f.Type()
			return outer
		case *ssa.Alloc:
			if g.isCellAlloc(a.X.(*ssa.Alloc)) {
				outer := g.resolveAddr(a.X, st)
				outer.path = append(append([]pathStep{}, outer.path...), pathStep{so: outer.so, idx: a.Field})
				outer.so = fso
				outer.goT = f.Type()
				return outer
			}
		}
		base := g.val(a.X)
		return LV{base: a.X, kind: lvField, heap: g.fieldHeapName(pt.Elem(), f.Name()), hso: &Sort{K: KRaw, Name: "(Array Int " + fso.Name + ")"},
			obj: base.S, vso: fso, so: fso, goT: f.Type()}
	case *ssa.IndexAddr:
		base := g.val(a.X)
		el, elT := g.elemOf(a.X.Type())
		if el == nil {
			return LV{kind: lvBad}
		}
		idx := g.toInt(g.val(a.Index))
		lv := LV{base: a.X, kind: lvElem, heap: g.elemHeapName(elT), hso: g.elemHeapSort(el), vso: el, so: el, goT: elT}
		if base.So.K == KSlice {
			lv.obj = app("s_obj", base.S)
			lv.idx = app("+", app("s_off", base.S), idx)
		} else {
			// pointer to array: array objects live in the element heap at offset 0
			lv.obj = base.S
			lv.idx = idx
		}
		return lv
	case *ssa.Alloc:
		et := a.Type().Underlying().(*types.Pointer).Elem()
		so := g.te.sortOf(et)
		if g.isCellAlloc(a) {
			return LV{kind: lvCell, heap: g.cellName(a), hso: so, vso: so, so: so, goT: et}
		}
		return LV{kind: lvBad}
	case *ssa.Global:
		et := a.Type().Underlying().(*types.Pointer).Elem()
		so := g.te.sortOf(et)
		name := "G." + sanitize(a.Pkg.Pkg.Path()) + "." + a.Name()
		return LV{kind: lvGlobal, heap: name, hso: so, vso: so, so: so, goT: et}
	case *ssa.FreeVar:
		et := a.Type().Underlying().(*types.Pointer).Elem()
		so := g.te.sortOf(et)
		return LV{kind: lvCell, heap: "C.free." + a.Name(), hso: so, vso: so, so: so, goT: et}
	}
	// generic pointer value
	pt, ok := v.Type().Underlying().(*types.Pointer)
	if !ok {
		return LV{kind: lvBad}
	}
	so := g.te.sortOf(pt.Elem())
	if so.K == KData {
		// pointer to struct used as a whole (copy): not supported field-wise
		return LV{kind: lvBad}
	}
	base := g.val(v)
	return LV{base: v, kind: lvDeref, heap: "P." + typeKey(pt.Elem()), hso: &Sort{K: KRaw, Name: "(Array Int " + so.Name + ")"}, obj: base.S, vso: so, so: so, goT: pt.Elem()}
}

// isCellAlloc: allocations that are modelled as a local mutable cell (everything except
// struct objects and arrays, which live in the heaps).
func (g *Gen) isCellAlloc(a *ssa.Alloc) bool {
	et := a.Type().Underlying().(*types.Pointer).Elem()
	switch et.Underlying().(type) {
	case *types.Struct:
		// a struct local whose address is taken only for field access is a cell too
		return !a.Heap || g.structAllocIsLocal(a)
	case *types.Array:
		return false
	}
	return true
}

// structAllocIsLocal: the pointer never escapes as a value (only FieldAddr / load / store uses).
func (g *Gen) structAllocIsLocal(a *ssa.Alloc) bool {
	for _, r := range *a.Referrers() {
		switch u := r.(type) {
		case *ssa.FieldAddr:
			if u.X != a {
				return false
			}
		case *ssa.UnOp:
		case *ssa.Store:
			if u.Val == a {
				return false
			}
		case *ssa.DebugRef:
		default:
			return false
		}
	}
	return true
}

func (g *Gen) cellName(a *ssa.Alloc) string {
	return "C." + g.inlPrefix + a.Name() + "." + a.Comment
}

func (g *Gen) lvBase(lv LV, st State) string {
	switch lv.kind {
	case lvField, lvDeref:
		return app("select", g.stGet(st, lv.heap, lv.hso), lv.obj)
	case lvElem:
		return app("select", app("select", g.stGet(st, lv.heap, lv.hso), lv.obj), lv.idx)
	case lvCell, lvGlobal:
		return g.stGet(st, lv.heap, lv.hso)
	}
	return "0"
}

func (g *Gen) lvLoad(lv LV, st State) string {
	cur := g.lvBase(lv, st)
	for _, p := range lv.path {
		cur = app(p.so.Fields[p.idx].Acc, cur)
	}
	return cur
}

func rebuild(container string, path []pathStep, val string) string {
	if len(path) == 0 {
		return val
	}
	p := path[0]
	parts := []string{p.so.Ctor}
	for i, f := range p.so.Fields {
		if i == p.idx {
			parts = append(parts, rebuild(app(f.Acc, container), path[1:], val))
		} else {
			parts = append(parts, app(f.Acc, container))
		}
	}
	return "(" + strings.Join(parts, " ") + ")"
}

func (g *Gen) lvStore(lv LV, st State, val string) {
	if lv.kind == lvField || lv.kind == lvElem || lv.kind == lvDeref {
		g.recordWrite(lv.heap, lv.base)
	}
	nv := val
	if len(lv.path) > 0 {
		nv = rebuild(g.lvBase(lv, st), lv.path, val)
	}
	switch lv.kind {
	case lvField, lvDeref:
		h := g.stGet(st, lv.heap, lv.hso)
		g.stSet(st, lv.heap, lv.hso, app("store", h, lv.obj, nv))
	case lvElem:
		h := g.stGet(st, lv.heap, lv.hso)
		g.stSet(st, lv.heap, lv.hso, app("store", h, lv.obj, app("store", app("select", h, lv.obj), lv.idx, nv)))
	case lvCell, lvGlobal:
		g.stGet(st, lv.heap, lv.hso)
		g.stSet(st, lv.heap, lv.hso, nv)
	}
}

// ---------- control flow ----------

func (g *Gen) analyseLoops() {
	g.loops = map[*ssa.BasicBlock]*loopInfo{}
	g.loopOrd = nil
	for _, b := range g.fn.Blocks {
		for _, s := range b.Succs {
			if s.Dominates(b) {
				li := g.loops[s]
				if li == nil {
					li = &loopInfo{header: s, body: map[*ssa.BasicBlock]bool{s: true}}
					g.loops[s] = li
				}
				li.back = append(li.back, b)
				// natural loop: nodes reaching b without passing through s
				stack := []*ssa.BasicBlock{b}
				for len(stack) > 0 {
					n := stack[len(stack)-1]
					stack = stack[:len(stack)-1]
					if li.body[n] {
						continue
					}
					li.body[n] = true
					stack = append(stack, n.Preds...)
				}
			}
		}
	}
	var hs []*ssa.BasicBlock
	for h := range g.loops {
		hs = append(hs, h)
	}
	sort.Slice(hs, func(i, j int) bool { return g.loopPos(hs[i]) < g.loopPos(hs[j]) })
	for i, h := range hs {
		g.loops[h].ord = i
	}
	g.loopOrd = hs
}

// loopPos orders loops by the source position of their first positioned instruction.
func (g *Gen) loopPos(h *ssa.BasicBlock) token.Pos {
	best := token.Pos(1 << 40)
	for b := range g.loops[h].body {
		for _, in := range b.Instrs {
			if _, isDbg := in.(*ssa.DebugRef); isDbg {
				continue
			}
			if p := in.Pos(); p.IsValid() && p < best {
				best = p
			}
		}
	}
	return best + token.Pos(h.Index)
}

func (g *Gen) isBackEdge(from, to *ssa.BasicBlock) bool {
	return to.Dominates(from) && g.loops[to] != nil
}

func (g *Gen) rpo() []*ssa.BasicBlock {
	seen := map[*ssa.BasicBlock]bool{}
	var post []*ssa.BasicBlock
	var dfs func(b *ssa.BasicBlock)
	dfs = func(b *ssa.BasicBlock) {
		seen[b] = true
		for _, s := range b.Succs {
			if !seen[s] && !g.isBackEdge(b, s) {
				dfs(s)
			}
		}
		post = append(post, b)
	}
	dfs(g.fn.Blocks[0])
	for i, j := 0, len(post)-1; i < j; i, j = i+1, j-1 {
		post[i], post[j] = post[j], post[i]
	}
	return post
}

func (g *Gen) edgeKey(from, to *ssa.BasicBlock, k int) [2]int {
	return [2]int{from.Index*1000 + k, to.Index}
}

// edgeCondition returns reach(from) ∧ branch condition for the k-th successor.
func (g *Gen) edgeTerm(from *ssa.BasicBlock, k int) string {
	return g.edgeCond[[2]int{from.Index, k}]
}

// predEdges lists (pred, succIndex) pairs entering b.
type predEdge struct {
	p *ssa.BasicBlock
	k int
}

func predEdges(b *ssa.BasicBlock) []predEdge {
	var out []predEdge
	for _, p := range b.Preds {
		for k, s := range p.Succs {
			if s == b {
				out = append(out, predEdge{p, k})
			}
		}
	}
	// a pred listed twice (both branches to same block) would be duplicated: dedupe
	seen := map[[2]int]bool{}
	var ded []predEdge
	for _, e := range out {
		key := [2]int{e.p.Index, e.k}
		if !seen[key] {
			seen[key] = true
			ded = append(ded, e)
		}
	}
	return ded
}

func (g *Gen) mergeStates(edges []predEdge) State {
	st := State{}
	names := map[string]bool{}
	for _, e := range edges {
		for n := range g.out[e.p] {
			names[n] = true
		}
	}
	var ns []string
	for n := range names {
		ns = append(ns, n)
	}
	sort.Strings(ns)
	for _, n := range ns {
		var terms []string
		same := true
		for _, e := range edges {
			t, ok := g.out[e.p][n]
			if !ok {
				t = g.stGet(State{}, n, g.stSorts[n])
			}
			terms = append(terms, t)
			if t != terms[0] {
				same = false
			}
		}
		if same {
			st[n] = terms[0]
			continue
		}
		cur := terms[len(terms)-1]
		for i := len(terms) - 2; i >= 0; i-- {
			cur = app("ite", g.edgeTerm(edges[i].p, edges[i].k), terms[i], cur)
		}
		st[n] = g.define(n, g.stSorts[n], cur)
	}
	return st
}

func (g *Gen) phiValue(phi *ssa.Phi, edges []predEdge) string {
	b := phi.Block()
	var terms []string
	for _, e := range edges {
		// index of pred in b.Preds
		idx := -1
		for i, p := range b.Preds {
			if p == e.p {
				idx = i
				break
			}
		}
		terms = append(terms, g.val(phi.Edges[idx]).S)
	}
	if len(terms) == 0 {
		return g.te.zero(g.te.sortOf(phi.Type()))
	}
	cur := terms[len(terms)-1]
	for i := len(terms) - 2; i >= 0; i-- {
		if terms[i] == cur {
			continue
		}
		cur = app("ite", g.edgeTerm(edges[i].p, edges[i].k), terms[i], cur)
	}
	return cur
}

// ---------- function driver ----------

func (g *Gen) run() {
	g.analyseLoops()
	g.collectDefs()
	// dry pass: discover which state components each block assigns
	g.dry = true
	g.blockMods = map[*ssa.BasicBlock]map[string]*Sort{}
	g.writeLog = map[*ssa.BasicBlock][]writeRec{}
	g.runPass()
	mods := g.blockMods
	saveSorts := g.stSorts
	te := g.te
	g.reset()
	g.te = te
	g.stSorts = saveSorts
	g.blockMods = mods
	g.dry = false
	g.errs = nil
	g.runPass()
}

func (g *Gen) runPass() {
	fn := g.fn
	st := State{}
	// parameters
	g.paramEnv = map[string]T{}
	for i, p := range fn.Params {
		so := g.te.sortOf(p.Type())
		name := "|" + p.Name() + "|"
		if p.Name() == "" || p.Name() == "_" {
			name = fmt.Sprintf("|param!%d|", i)
		}
		g.declare(name, so)
		t := T{S: name, So: so, GoT: p.Type()}
		g.vals[p] = t
		g.assumeTypeInv(t, st)
		g.paramEnv[p.Name()] = t
		g.modelVars = append(g.modelVars, ModelVar{Name: p.Name(), Term: name, Sort: so, GoT: p.Type().String()})
		if i == 0 && fn.Signature.Recv() != nil {
			g.paramEnv["self"] = t
			if _, isPtr := p.Type().Underlying().(*types.Pointer); isPtr {
				g.assume(app(">", name, "0")) // receivers are non-nil (trusted; listed in evidence)
			}
		}
	}
	if g.ct != nil && len(g.ct.Params) > 0 {
		off := 0
		if fn.Signature.Recv() != nil {
			off = 1
		}
		for i, n := range g.ct.Params {
			if off+i < len(fn.Params) {
				g.paramEnv[n] = g.vals[fn.Params[off+i]]
			}
		}
	}
	for _, fv := range fn.FreeVars {
		so := g.te.sortOf(fv.Type())
		name := "|free." + fv.Name() + "|"
		g.declare(name, so)
		g.vals[fv] = T{S: name, So: so, GoT: fv.Type()}
		// captured variables are cells: the contract refers to their entry values by name
		if pt, ok := fv.Type().Underlying().(*types.Pointer); ok {
			lv := g.resolveAddr(fv, st)
			if lv.kind == lvCell {
				t := T{S: g.stGet(st, lv.heap, lv.hso), So: lv.so, GoT: pt.Elem()}
				g.assumeTypeInv(t, st)
				g.paramEnv[fv.Name()] = t
			}
		}
	}
	g.stGet(st, "alloc", SMath)
	g.assume(app(">=", st["alloc"], "0"))
	g.stGet(st, "E.uint8", g.elemHeapSort(SBV8))
	g.emitErrorAxioms(st)
	// global invariants and requires
	isInit := fn.Name() == "init" && fn.Synthetic != ""
	if isInit {
		// the invariants are established by the first (and only effective) run of the initialiser
		g.assume(not(g.stGet(st, "G."+sanitize(fn.Pkg.Pkg.Path())+".init$guard", SBool)))
	}
	if !isInit {
		for _, gi := range g.cs.Globals {
			if fn.Pkg == nil || gi.Pkg != fn.Pkg.Pkg.Path() {
				continue // invariants of other packages' globals are not needed here
			}
			env := g.envAt(st, st, g.prog.typesPkg(gi.Pkg), nil)
			t := env.compileBool(gi.Clause.Expr)
			if g.reportSpecErrors(env, gi.Clause) {
				continue
			}
			g.assume(t.S)
		}
	}
	if g.ct != nil {
		g.bindLetsT(g.ct, g.paramEnv, st, st, true)
		var reqs []string
		for _, c := range g.ct.Requires {
			env := g.envAt(st, st, g.pkg, g.paramEnv)
			t := env.compileBool(c.Expr)
			if g.reportSpecErrors(env, c) {
				continue
			}
			g.assume(t.S)
			reqs = append(reqs, t.S)
			if len(c.Props) == 1 && c.Props[0] == "trusted" {
				// "requires@trusted": assumed here, checked at no call site -- an explicit trusted link
				g.assumed["precondition of "+funcDisplayName(g.fn)+" that no caller is checked against (trusted link): "+c.Text] = true
			}
		}
		g.newCover("vacuity", "requires", "the preconditions (with type invariants and global invariants) are satisfiable", g.ct.Where, "true")
	}
	// entry state snapshot: g.entry collects initial constants lazily
	order := g.rpo()
	g.out = map[*ssa.BasicBlock]State{}
	for _, b := range order {
		g.execBlock(b, st)
	}
}

func (g *Gen) bindLets(ct *Contract, vars map[string]T, st, old State) {
	g.bindLetsT(ct, vars, st, old, false)
}

// bindLetsT: with tolerant set, a let that cannot be evaluated yet (it mentions results or
// the locked state) is skipped silently; it is bound again at the returns.
func (g *Gen) bindLetsT(ct *Contract, vars map[string]T, st, old State, tolerant bool) {
	for _, l := range ct.Lets {
		cl, err := parseClause(l[1], ct.Where)
		if err != nil {
			g.errorf("%v", err)
			continue
		}
		env := g.envAt(st, old, g.prog.typesPkg(ct.Pkg), vars)
		t := env.compile(cl.Expr, nil)
		if tolerant && len(env.errs) > 0 {
			continue
		}
		if g.reportSpecErrors(env, cl) {
			continue // a stale definition: the clauses that use it become stale in turn
		}
		vars[l[0]] = t
	}
}

func (p *Program) typesPkg(path string) *types.Package {
	for _, pk := range p.pkgs {
		if pk.PkgPath == path {
			return pk.Types
		}
	}
	for _, pk := range p.byName {
		if pk.Path() == path {
			return pk
		}
	}
	return nil
}

// reportSpecErrors records specification errors. A clause whose only problem is an identifier
// the code no longer has (a renamed / removed local or captured variable) is "stale": it is
// noted, not an error; as a goal it has been compiled to false (the obligation fails), as an
// assumption the caller must skip it (the return value says so).
func (g *Gen) reportSpecErrors(env *Env, c Clause) bool {
	if len(env.errs) == 0 {
		return false
	}
	stale := true
	for _, e := range env.errs {
		// (a clause about the state at lock acquisition in a function that no longer acquires
		// the lock itself is stale in the same sense)
		if !strings.Contains(e, "unknown identifier") && !strings.Contains(e, "locked(): no lock acquired") {
			stale = false
		}
	}
	if stale {
		g.note("contract clause %q no longer applies to the code (%s)", c.Text, env.errs[0])
		if !g.dry {
			g.staleInv = append(g.staleInv, c.Text+"  ["+env.errs[0]+"]")
		}
		env.errs = nil
		return true
	}
	for _, e := range env.errs {
		g.errorf("%s: %s (in %q)", c.Where, e, c.Text)
	}
	env.errs = nil
	return false
}

func (g *Gen) envAt(st, old State, pkg *types.Package, vars map[string]T) *Env {
	if vars == nil {
		vars = map[string]T{}
	}
	return &Env{g: g, vars: vars, st: st, old: old, bound: map[string]T{}, pkg: pkg}
}

// collectDefs indexes DebugRef / Phi definitions of local variable names.
func (g *Gen) collectDefs() {
	g.defs = map[string][]nameDef{}
	for _, b := range g.fn.Blocks {
		for i, in := range b.Instrs {
			switch v := in.(type) {
			case *ssa.DebugRef:
				id, ok := v.Expr.(*ast.Ident)
				if !ok {
					continue
				}
				g.defs[id.Name] = append(g.defs[id.Name], nameDef{block: b, pos: i, val: v.X, addr: v.IsAddr})
			case *ssa.Phi:
				if v.Comment != "" {
					g.defs[v.Comment] = append(g.defs[v.Comment], nameDef{block: b, pos: -1, val: v})
				}
			}
		}
	}
}

// localsAt resolves local variable names visible at the start (atStart) or end of block b.
func (g *Gen) localsAt(b *ssa.BasicBlock, atStart bool, st State) map[string]T {
	vars := map[string]T{}
	for k, v := range g.paramEnv {
		vars[k] = v
	}
	// "rangeindex": the hidden index of a range loop over a slice, array or string whose header is
	// this block (or the innermost one dominating it): the index of the element processed last,
	// -1 before the first
	for blk := b; blk != nil; blk = blk.Idom() {
		found := false
		for _, in := range blk.Instrs {
			if ph, ok := in.(*ssa.Phi); ok && ph.Comment == "rangeindex" {
				if t, ok := g.vals[ph]; ok {
					vars["rangeindex"] = t
					found = true
				}
			}
		}
		if found {
			break
		}
	}
	// "iter": the number of completed iterations of the innermost counted loop around b -- the
	// induction variable of the loop (a header phi that starts at a constant and is incremented by
	// one on every back edge) minus its start. It is the same number for `for i := 0; i < n; i++`
	// and for `for i := range s`, so an invariant stated over iter survives the one being
	// rewritten into the other.
	for blk := b; blk != nil; blk = blk.Idom() {
		li := g.loops[blk]
		if li == nil || !li.body[b] {
			continue
		}
		if t, ok := g.inductionCount(blk, li); ok {
			vars["iter"] = t
		}
		break
	}
	// variables that live in a cell (address taken / captured): their current content
	cellVars := map[string]bool{}
	for _, blk := range g.fn.Blocks {
		for _, in := range blk.Instrs {
			a, ok := in.(*ssa.Alloc)
			if !ok || a.Comment == "" || !g.isCellAlloc(a) {
				continue
			}
			if !(blk == b || blk.Dominates(b)) {
				continue
			}
			lv := g.resolveAddr(a, st)
			if lv.kind == lvCell {
				if _, isParam := g.paramEnv[a.Comment]; isParam {
					// a parameter copied into a cell: the contract's name means the current value too
				}
				vars[a.Comment] = T{S: g.stGet(st, lv.heap, lv.hso), So: lv.so, GoT: lv.goT}
				cellVars[a.Comment] = true
			}
		}
	}
	for name, ds := range g.defs {
		if cellVars[name] {
			continue
		}
		var best *nameDef
		for i := range ds {
			d := &ds[i]
			ok := false
			if d.block == b {
				ok = !atStart || d.pos < 0
			} else if d.block.Dominates(b) {
				ok = true
			}
			if !ok {
				continue
			}
			if best == nil {
				best = d
				continue
			}
			// prefer the definition deeper in the dominator tree, then the later one
			if best.block != d.block {
				if best.block.Dominates(d.block) {
					best = d
				}
			} else if d.pos >= best.pos {
				best = d
			}
		}
		if best == nil {
			continue
		}
		if best.addr {
			lv := g.resolveAddr(best.val, st)
			if lv.kind != lvBad {
				vars[name] = T{S: g.lvLoad(lv, st), So: lv.so, GoT: lv.goT}
			}
			continue
		}
		if t, ok := g.vals[best.val]; ok {
			vars[name] = t
		} else if _, isConst := best.val.(*ssa.Const); isConst {
			vars[name] = g.val(best.val)
		}
	}
	return vars
}

// inductionCount: see "iter" in localsAt.
func (g *Gen) inductionCount(h *ssa.BasicBlock, li *loopInfo) (T, bool) {
	var best *ssa.Phi
	var start string
	for _, in := range h.Instrs {
		ph, ok := in.(*ssa.Phi)
		if !ok {
			break
		}
		bt, ok := ph.Type().Underlying().(*types.Basic)
		if !ok || bt.Info()&types.IsInteger == 0 || bt.Info()&types.IsUnsigned != 0 {
			continue
		}
		c0 := ""
		good := true
		for i, e := range ph.Edges {
			if li.body[h.Preds[i]] {
				// back edge: phi + 1
				bo, ok := e.(*ssa.BinOp)
				if !ok || bo.Op != token.ADD {
					good = false
					break
				}
				one := func(v ssa.Value) bool {
					c, ok := v.(*ssa.Const)
					return ok && c.Value != nil && c.Value.ExactString() == "1"
				}
				if !((bo.X == ph && one(bo.Y)) || (bo.Y == ph && one(bo.X))) {
					good = false
					break
				}
			} else {
				c, ok := e.(*ssa.Const)
				if !ok || c.Value == nil {
					good = false
					break
				}
				if c0 != "" && c0 != c.Value.ExactString() {
					good = false
					break
				}
				c0 = c.Value.ExactString()
			}
		}
		if !good || c0 == "" {
			continue
		}
		if best == nil || ph.Comment == "rangeindex" {
			best, start = ph, c0
		}
	}
	if best == nil {
		return T{}, false
	}
	t, ok := g.vals[best]
	if !ok {
		return T{}, false
	}
	if strings.HasPrefix(start, "-") {
		start = "(- " + start[1:] + ")"
	}
	return T{S: app("-", t.S, start), So: t.So, GoT: best.Type()}, true
}

func (g *Gen) execBlock(b *ssa.BasicBlock, initial State) {
	g.curBlock = b
	var st State
	var reach string
	edges := predEdges(b)
	li := g.loops[b]
	if b.Index == 0 {
		st = initial
		reach = "true"
		if g.inl != nil {
			reach = g.inlReach // the entry block of a helper executed in place
		}
	} else {
		var fwd []predEdge
		for _, e := range edges {
			if !g.isBackEdge(e.p, b) {
				if _, done := g.out[e.p]; done {
					fwd = append(fwd, e)
				}
			}
		}
		var conds []string
		for _, e := range fwd {
			conds = append(conds, g.edgeTerm(e.p, e.k))
		}
		reach = g.define(fmt.Sprintf("reach.%d", b.Index), SBool, or(conds...))
		st = g.mergeStates(fwd)
		// phis
		var phis []*ssa.Phi
		for _, in := range b.Instrs {
			if p, ok := in.(*ssa.Phi); ok {
				phis = append(phis, p)
			}
		}
		if li == nil {
			for _, p := range phis {
				g.setVal(p, g.phiValue(p, fwd))
			}
		} else {
			g.enterLoop(b, li, st, fwd, phis, reach)
		}
	}
	g.reach[b] = reach
	g.curMods = map[string]*Sort{}
	g.applyVolatile(st)
	for _, in := range b.Instrs {
		g.execInstr(in, st, reach)
	}
	if g.dry {
		g.blockMods[b] = g.curMods
	}
	g.curMods = nil
	g.out[b] = st
	// edge conditions
	switch t := b.Instrs[len(b.Instrs)-1].(type) {
	case *ssa.If:
		c := g.val(t.Cond).S
		g.edgeCond[[2]int{b.Index, 0}] = g.define(fmt.Sprintf("edge.%d.0", b.Index), SBool, and(reach, c))
		g.edgeCond[[2]int{b.Index, 1}] = g.define(fmt.Sprintf("edge.%d.1", b.Index), SBool, and(reach, not(c)))
	case *ssa.Jump:
		g.edgeCond[[2]int{b.Index, 0}] = reach
	}
	// back edges: the invariant must be re-established
	for k, s := range b.Succs {
		if g.isBackEdge(b, s) {
			g.checkInvariant(s, g.loops[s], st, b, k, "step")
		}
	}
}

type writeRec struct {
	heap string
	base ssa.Value
}

func (g *Gen) recordWrite(heap string, base ssa.Value) {
	if !g.dry || g.curBlock == nil {
		return
	}
	g.writeLog[g.curBlock] = append(g.writeLog[g.curBlock], writeRec{heap, base})
}

// loopFrame: when every write of the loop body to a heap goes through a base value defined
// outside the loop, all other pre-existing objects of that heap are unchanged by the loop.
func (g *Gen) loopFrame(li *loopInfo, name string, pre, st State) {
	if !(strings.HasPrefix(name, "F.") || strings.HasPrefix(name, "E.") || strings.HasPrefix(name, "P.")) {
		return
	}
	var bases []ssa.Value
	seen := map[ssa.Value]bool{}
	for b := range li.body {
		for _, w := range g.writeLog[b] {
			if w.heap != name && w.heap != "*" {
				continue
			}
			if w.base == nil {
				return
			}
			if in, ok := w.base.(ssa.Instruction); ok {
				if li.body[in.Block()] {
					return
				}
			}
			if !seen[w.base] {
				seen[w.base] = true
				bases = append(bases, w.base)
			}
		}
	}
	var conds []string
	for _, b := range bases {
		t := g.val(b)
		if t.So.K == KSlice {
			conds = append(conds, not(app("=", "o!q", app("s_obj", t.S))))
		} else {
			conds = append(conds, not(app("=", "o!q", t.S)))
		}
	}
	a0 := pre["alloc"]
	if a0 == "" {
		a0 = g.stGet(pre, "alloc", SMath)
	}
	conds = append(conds, app("<=", "o!q", a0))
	g.assume(fmt.Sprintf("(forall ((o!q Int)) (! (=> %s (= (select %s o!q) (select %s o!q))) :pattern ((select %s o!q))))", and(conds...), st[name], pre[name], st[name]))
}

func (g *Gen) loopModSet(li *loopInfo) map[string]*Sort {
	mods := map[string]*Sort{}
	for b := range li.body {
		for n, so := range g.blockMods[b] {
			if strings.HasPrefix(n, "*struct:") {
				pre := "F." + strings.TrimPrefix(n, "*struct:") + "."
				for hn, hso := range g.stSorts {
					if strings.HasPrefix(hn, pre) {
						mods[hn] = hso
					}
				}
				continue
			}
			if n == "*" {
				for hn, hso := range g.stSorts {
					if strings.HasPrefix(hn, "F.") || strings.HasPrefix(hn, "E.") || strings.HasPrefix(hn, "P.") || strings.HasPrefix(hn, "M.") {
						mods[hn] = hso
					}
				}
				continue
			}
			if so == nil {
				so = g.stSorts[n]
			}
			if so != nil {
				mods[n] = so
			}
		}
	}
	return mods
}

func (g *Gen) enterLoop(h *ssa.BasicBlock, li *loopInfo, st State, fwd []predEdge, phis []*ssa.Phi, reach string) {
	// 1. the invariant holds on entry (phi values taken from the entry edges)
	for _, p := range phis {
		g.vals[p] = T{S: g.phiValue(p, fwd), So: g.te.sortOf(p.Type()), GoT: p.Type()}
	}
	g.checkInvariantAt(h, li, st, reach, "init")
	// 2. havoc what the loop modifies
	pre := st.clone()
	if !g.dry {
		mods := g.loopModSet(li)
		var names []string
		for n := range mods {
			names = append(names, n)
		}
		sort.Strings(names)
		for _, n := range names {
			if _, ok := pre[n]; !ok {
				pre[n] = g.stGet(st, n, mods[n])
			}
			g.stHavoc(st, n, mods[n])
			g.loopFrame(li, n, pre, st)
		}
		if a, ok := pre["alloc"]; ok {
			if st["alloc"] != a {
				g.assume(app(">=", st["alloc"], a))
			}
		}
	}
	for _, p := range phis {
		// (a value at the loop head refers only to objects that exist there)
		g.assumeTypeInv(g.havocVal(p), st)
	}
	// 3. assume the invariant for an arbitrary iteration
	if g.headSt == nil {
		g.headSt = map[*ssa.BasicBlock]State{}
		g.headVars = map[*ssa.BasicBlock]map[string]T{}
	}
	g.headSt[h] = st.clone()
	g.headVars[h] = g.localsAt(h, true, st)
	if g.ct != nil {
		vars := g.localsAt(h, true, st)
		for _, c := range g.ct.LoopInv[li.ord] {
			if !c.active(g.prog.curProp) {
				continue
			}
			env := g.envAt(st, g.entryState(), g.pkg, vars)
			t := env.compileBool(c.Expr)
			if g.invariantStale(env, c) {
				continue
			}
			if g.reportSpecErrors(env, c) {
				continue
			}
			g.assume(app("=>", reach, t.S))
		}
	}
}

func (g *Gen) entryState() State {
	// entry constants are created lazily: a fresh map falls back to "@in" constants
	return State{}
}

func (g *Gen) checkInvariant(h *ssa.BasicBlock, li *loopInfo, st State, from *ssa.BasicBlock, k int, what string) {
	// bind header phis to the values flowing along this back edge
	saved := map[ssa.Value]T{}
	idx := -1
	for i, p := range h.Preds {
		if p == from {
			idx = i
		}
	}
	for _, in := range h.Instrs {
		if p, ok := in.(*ssa.Phi); ok {
			saved[p] = g.vals[p]
			g.vals[p] = g.val(p.Edges[idx])
		}
	}
	if g.ct != nil && !g.dry {
		g.curHead = h
		vars := g.localsAt(h, true, st)
		// a step lemma is stated at the end of one iteration: the variables declared inside the
		// body (as they stand where this back edge leaves it) are in scope as well
		for k, x := range g.localsAt(from, false, st) {
			if _, ok := vars[k]; !ok {
				vars[k] = x
			}
		}
		for i, c := range g.ct.StepLemma[li.ord] {
			if !c.active(g.prog.curProp) {
				continue
			}
			env := g.envAt(st, g.entryState(), g.pkg, vars)
			env.inGoal = true
			t := env.compileBool(c.Expr)
			if g.invariantStale(env, c) {
				continue
			}
			g.reportSpecErrors(env, c)
			label := c.Label
			if label == "" {
				label = fmt.Sprint(i)
			}
			g.newObligation(fmt.Sprintf("loop%d.step-lemma", li.ord), label, fmt.Sprintf("step lemma [back edge from block %d]: %s", from.Index, c.Text), c.Where, app("=>", g.edgeTerm(from, k), t.S))
		}
		g.curHead = nil
	}
	g.checkInvariantAt(h, li, st, g.edgeTerm(from, k), fmt.Sprintf("%s [back edge from block %d, line %s]", what, from.Index, g.where(from.Instrs[len(from.Instrs)-1].Pos())))
	for p, t := range saved {
		g.vals[p] = t
	}
}

func (g *Gen) checkInvariantAt(h *ssa.BasicBlock, li *loopInfo, st State, cond string, what string) {
	if g.ct == nil || g.dry {
		return
	}
	vars := g.localsAt(h, true, st)
	for _, c := range g.ct.LoopInv[li.ord] {
		if c.Free && c.active(g.prog.curProp) {
			// definitional axioms hold in every state: available when the invariant is (re-)established
			env := g.envAt(st, g.entryState(), g.pkg, vars)
			t := env.compileBool(c.Expr)
			if !g.reportSpecErrors(env, c) {
				g.assume(app("=>", cond, t.S))
			}
		}
	}
	for i, c := range g.ct.LoopInv[li.ord] {
		if !c.active(g.prog.curProp) {
			continue
		}
		if c.Free {
			g.assumed["definitional axiom assumed at loop "+fmt.Sprint(li.ord)+" of "+funcDisplayName(g.fn)+": "+c.Text] = true
			continue
		}
		env := g.envAt(st, g.entryState(), g.pkg, vars)
		env.inGoal = true
		t := env.compileBool(c.Expr)
		if g.invariantStale(env, c) {
			continue
		}
		g.reportSpecErrors(env, c)
		label := c.Label
		if label == "" {
			label = fmt.Sprint(i)
		}
		g.newObligation(fmt.Sprintf("loop%d.inv-%s", li.ord, strings.SplitN(what, " ", 2)[0]), label, "invariant "+what+": "+c.Text, c.Where, app("=>", cond, t.S))
	}
}

// emitErrorAxioms axiomatises errors.Is for the error values of this code base: nil, plain
// sentinel errors, *storage.Conflict and *storage.errUncertainResult. The clauses for the two
// storage types restate their Is methods, which are verified against contracts under C09.
func (g *Gen) emitErrorAxioms(st State) {
	g.errSt = st
	g.errQuantDone = false
	sp := g.prog.byName["storage"]
	if sp == nil {
		return
	}
	gname := func(n string) string {
		v, _ := sp.Scope().Lookup(n).(*types.Var)
		if v == nil {
			return "inil"
		}
		return g.stGet(st, g.globalName(v), SIface)
	}
	var sentinels []string
	for _, n := range []string{"ErrUnsupported", "ErrKeyNotFound", "ErrKeyDuplicated", "ErrCASFailed", "ErrUnexpectedRet", "ErrUnavailable", "ErrUncertainResult"} {
		sentinels = append(sentinels, gname(n))
	}
	// the sentinels are distinct non-nil plain errors (established by storage.init: proved under C09/C11)
	for i, a := range sentinels {
		g.assume(and(not(app("=", a, "inil")), app("=", app("itag", a), fmt.Sprint(tagPlainErr))))
		for _, b := range sentinels[i+1:] {
			g.assume(not(app("=", a, b)))
		}
	}
	if io := g.prog.byName["io"]; io != nil {
		if v, ok := io.Scope().Lookup("EOF").(*types.Var); ok {
			eof := g.stGet(st, g.globalName(v), SIface)
			g.assume(and(not(app("=", eof, "inil")), app("=", app("itag", eof), fmt.Sprint(tagPlainErr))))
			for _, a := range sentinels {
				g.assume(not(app("=", a, eof)))
			}
		}
	}
}

// needErrIs emits the quantified errors.Is axioms the first time err_is is used.
func (g *Gen) needErrIs() {
	if g.errQuantDone {
		return
	}
	g.errQuantDone = true
	st := State{}
	g.assume("(forall ((t!q Iface)) (! (= (err_is inil t!q) (= t!q inil)) :pattern ((err_is inil t!q))))")
	g.assume("(forall ((e!q Iface)) (! (=> (not (= e!q inil)) (err_is e!q e!q)) :pattern ((err_is e!q e!q))))")
	g.assume(fmt.Sprintf("(forall ((e!q Iface) (t!q Iface)) (! (=> (and (not (= e!q inil)) (= (itag e!q) %d)) (= (err_is e!q t!q) (= e!q t!q))) :pattern ((err_is e!q t!q))))", tagPlainErr))
	ct := g.prog.lookupType("*storage.Conflict")
	ut := g.prog.lookupType("*storage.errUncertainResult")
	sp := g.prog.byName["storage"]
	if ct == nil || ut == nil || sp == nil {
		return
	}
	gname := func(n string) string {
		v, _ := sp.Scope().Lookup(n).(*types.Var)
		if v == nil {
			return "inil"
		}
		return g.stGet(st, g.globalName(v), SIface)
	}
	cas := gname("ErrCASFailed")
	unc := gname("ErrUncertainResult")
	g.assume(fmt.Sprintf("(forall ((e!q Iface) (t!q Iface)) (! (=> (and (not (= e!q inil)) (= (itag e!q) %d)) (= (err_is e!q t!q) (or (= e!q t!q) (= t!q %s)))) :pattern ((err_is e!q t!q))))", g.te.tagOf(ct), cas))
	// *storage.errUncertainResult: matches ErrUncertainResult (its Is method, verified under C09); what
	// else it matches depends on the wrapped error and is stated by NewErrUncertainResult's contract
	// (a recursive axiom over the chain would make the instantiation loop)
	g.assume(fmt.Sprintf("(forall ((e!q Iface)) (! (=> (and (not (= e!q inil)) (= (itag e!q) %d)) (err_is e!q %s)) :pattern ((itag e!q))))", g.te.tagOf(ut), unc))
	g.assumed["errors.Is axioms for nil, plain sentinels, *storage.Conflict, *storage.errUncertainResult (the two Is methods are verified under C09)"] = true
}

// invariantStale: a loop invariant that mentions a local variable the loop no longer has (the
// loop was rewritten) cannot be used; it is dropped with a note, so the obligations that
// depended on it fail as undischarged instead of the whole check giving up.
func (g *Gen) invariantStale(env *Env, c Clause) bool {
	if len(env.errs) == 0 {
		return false
	}
	for _, e := range env.errs {
		if !strings.Contains(e, "unknown identifier") {
			return false
		}
	}
	g.note("loop invariant %q does not apply to the current loop (%s): dropped", c.Text, env.errs[0])
	if !g.dry {
		g.staleInv = append(g.staleInv, c.Text)
	}
	env.errs = nil
	return true
}
