package main

import (
	"fmt"
	"go/constant"
	"sort"
	"strings"

	"golang.org/x/tools/go/ssa"
)

// The metric table (C20 b): the Prometheus client panics when a metric name is used with a
// label set different from the one it was registered with, and when two collectors end up
// with the same formatted name. Both are decided here on the SSA of every Emit* call site of
// the loaded program: the name and the label names are recovered by constant propagation
// through parameters (callers' arguments), phis, package-level tag variables and the
// metrics.Tag constructor. A site that cannot be resolved is reported, not skipped.

type metricSite struct {
	kind   string // Counter / Gauge / Histogram
	where  string
	names  []string // possible metric names
	labels []string // sorted label names ("?" when unresolved)
	ok     bool
	why    string
}

const metricsPkg = "github.com/kubewharf/kubebrain/pkg/metrics"

func metricObligations(prog *Program) []*oblResult {
	var sites []metricSite
	for key, f := range prog.funcs {
		if f.Blocks == nil || strings.Contains(key, "/metrics/mock") {
			continue
		}
		if strings.HasSuffix(key, "metrics/prometheus.emitMetrics") {
			// re-export of the gRPC interceptor's own collectors: names and labels come from the
			// gathered metric families at run time (listed as outside the table)
			continue
		}
		for _, b := range f.Blocks {
			for _, in := range b.Instrs {
				call, ok := in.(*ssa.Call)
				if !ok || !call.Call.IsInvoke() {
					continue
				}
				m := call.Call.Method.Name()
				if !strings.HasPrefix(m, "Emit") || !strings.HasSuffix(call.Call.Value.Type().String(), "metrics.Metrics") {
					continue
				}
				s := metricSite{kind: strings.TrimPrefix(m, "Emit"), where: trimName(key) + " @ " + shortPos(prog, call)}
				names, ok1 := resolveStrings(prog, call.Call.Args[0], f, 0)
				labels, ok2, why := resolveTagSlice(prog, call.Call.Args[2], f, 0)
				s.names, s.labels, s.ok = names, labels, ok1 && ok2
				if !ok1 {
					s.why = "metric name not a compile-time constant"
				} else if !ok2 {
					s.why = why
				}
				sites = append(sites, s)
			}
		}
	}
	sort.Slice(sites, func(i, j int) bool { return sites[i].where < sites[j].where })
	var out []*oblResult
	mk := func(name, text string, okv bool, detail string) {
		o := &Obligation{Name: "metrics:" + name, Kind: "structural", Func: "metrics", Where: "all Emit* call sites", Expect: "unsat", Text: text}
		r := &oblResult{O: o, Q: "; decided on the SSA of all Emit* call sites\n; " + detail + "\n"}
		if okv {
			r.Res = SolverResult{Status: "unsat", Solver: "kbv-metric-table"}
		} else {
			r.Res = SolverResult{Status: "unknown", Solver: "kbv-metric-table", Output: detail}
		}
		out = append(out, r)
	}
	// 1. every site resolves
	var unresolved []string
	for _, s := range sites {
		if !s.ok {
			unresolved = append(unresolved, s.where+": "+s.why)
		}
	}
	mk("sites-resolved", fmt.Sprintf("the metric name and label names of all %d Emit* call sites are compile-time constants", len(sites)), len(unresolved) == 0, strings.Join(unresolved, "; "))
	// 2. one label set per (kind, name)
	table := map[string]map[string][]string{} // kind/name -> labelset -> sites
	for _, s := range sites {
		if !s.ok {
			continue
		}
		for _, n := range s.names {
			k := s.kind + " " + n
			if table[k] == nil {
				table[k] = map[string][]string{}
			}
			ls := strings.Join(s.labels, ",")
			table[k][ls] = append(table[k][ls], s.where)
		}
	}
	var keys []string
	for k := range table {
		keys = append(keys, k)
	}
	sort.Strings(keys)
	for _, k := range keys {
		sets := table[k]
		var desc []string
		for ls, ws := range sets {
			desc = append(desc, "{"+ls+"} at "+strings.Join(ws, ", "))
		}
		sort.Strings(desc)
		mk("labels:"+strings.ReplaceAll(k, " ", ":"), "metric "+k+" is always emitted with the same label names", len(sets) == 1, strings.Join(desc, " | "))
	}
	// 3. formatted names are unique across names and kinds (a duplicate registration panics)
	formatted := map[string][]string{}
	for _, k := range keys {
		n := strings.SplitN(k, " ", 2)[1]
		fn := strings.ReplaceAll(n, ".", "_")
		formatted[fn] = append(formatted[fn], k)
	}
	var coll []string
	for fn, ks := range formatted {
		if len(ks) > 1 {
			sort.Strings(ks)
			coll = append(coll, fn+" <- "+strings.Join(ks, ", "))
		}
	}
	sort.Strings(coll)
	mk("registered-names-unique", "no two metrics (of any kind) share a name after '.' -> '_' formatting", len(coll) == 0, strings.Join(coll, "; "))
	return out
}

func shortPos(prog *Program, in ssa.Instruction) string {
	p := prog.ssa.Fset.Position(in.Pos())
	f := p.Filename
	if i := strings.Index(f, "/pkg/"); i >= 0 {
		f = f[i+1:]
	}
	return fmt.Sprintf("%s:%d", f, p.Line)
}

// resolveStrings: the set of constant strings a value can take.
func resolveStrings(prog *Program, v ssa.Value, fn *ssa.Function, depth int) ([]string, bool) {
	if depth > 10 {
		return nil, false
	}
	switch x := v.(type) {
	case *ssa.Const:
		if x.Value != nil && x.Value.Kind() == constant.String {
			return []string{constant.StringVal(x.Value)}, true
		}
		return nil, false
	case *ssa.BinOp:
		a, ok1 := resolveStrings(prog, x.X, fn, depth+1)
		b, ok2 := resolveStrings(prog, x.Y, fn, depth+1)
		if !ok1 || !ok2 {
			return nil, false
		}
		var out []string
		for _, p := range a {
			for _, q := range b {
				out = append(out, p+q)
			}
		}
		return out, true
	case *ssa.Phi:
		var out []string
		for _, e := range x.Edges {
			s, ok := resolveStrings(prog, e, fn, depth+1)
			if !ok {
				return nil, false
			}
			out = append(out, s...)
		}
		return uniq(out), true
	case *ssa.Parameter:
		idx := paramIndex(fn, x)
		var out []string
		n := 0
		for _, caller := range prog.funcs {
			if caller.Blocks == nil {
				continue
			}
			for _, b := range caller.Blocks {
				for _, in := range b.Instrs {
					cc := callCommonOf(in)
					if cc == nil || cc.StaticCallee() != fn || idx >= len(cc.Args) {
						continue
					}
					n++
					s, ok := resolveStrings(prog, cc.Args[idx], caller, depth+1)
					if !ok {
						return nil, false
					}
					out = append(out, s...)
				}
			}
		}
		if n == 0 {
			return nil, false
		}
		return uniq(out), true
	case *ssa.UnOp:
		if g, ok := x.X.(*ssa.Global); ok {
			if val := globalInit(prog, g); val != nil {
				return resolveStrings(prog, val, g.Pkg.Func("init"), depth+1)
			}
		}
	}
	return nil, false
}

func callCommonOf(in ssa.Instruction) *ssa.CallCommon {
	switch v := in.(type) {
	case *ssa.Call:
		return &v.Call
	case *ssa.Go:
		return &v.Call
	case *ssa.Defer:
		return &v.Call
	}
	return nil
}

func paramIndex(fn *ssa.Function, p *ssa.Parameter) int {
	for i, q := range fn.Params {
		if q == p {
			return i
		}
	}
	return -1
}

func uniq(xs []string) []string {
	m := map[string]bool{}
	var out []string
	for _, x := range xs {
		if !m[x] {
			m[x] = true
			out = append(out, x)
		}
	}
	sort.Strings(out)
	return out
}

// globalInit: the value stored into a package-level variable by the package initialiser.
func globalInit(prog *Program, g *ssa.Global) ssa.Value {
	init := g.Pkg.Func("init")
	if init == nil {
		return nil
	}
	var val ssa.Value
	for _, b := range init.Blocks {
		for _, in := range b.Instrs {
			if s, ok := in.(*ssa.Store); ok && s.Addr == ssa.Value(g) {
				val = s.Val
			}
		}
	}
	return val
}

// resolveTagName: the label name of a value of type metrics.T.
func resolveTagName(prog *Program, v ssa.Value, fn *ssa.Function, depth int) ([]string, bool) {
	if depth > 10 {
		return nil, false
	}
	switch x := v.(type) {
	case *ssa.Call:
		if f := x.Call.StaticCallee(); f != nil {
			if f.Pkg != nil && f.Pkg.Pkg.Path() == metricsPkg && f.Name() == "Tag" {
				return resolveStrings(prog, x.Call.Args[0], fn, depth+1)
			}
			// a helper returning a tag: all its returns must agree
			if f.Blocks != nil && f.Signature.Results().Len() == 1 {
				var out []string
				for _, b := range f.Blocks {
					if r, ok := b.Instrs[len(b.Instrs)-1].(*ssa.Return); ok {
						s, ok := resolveTagName(prog, r.Results[0], f, depth+1)
						if !ok {
							return nil, false
						}
						out = append(out, s...)
					}
				}
				return uniq(out), len(out) > 0
			}
		}
	case *ssa.Phi:
		var out []string
		for _, e := range x.Edges {
			if c, isConst := e.(*ssa.Const); isConst && c.Value == nil {
				continue // zero value on a path where the variable is assigned later
			}
			s, ok := resolveTagName(prog, e, fn, depth+1)
			if !ok {
				return nil, false
			}
			out = append(out, s...)
		}
		return uniq(out), len(out) > 0
	case *ssa.UnOp:
		if g, ok := x.X.(*ssa.Global); ok {
			if val := globalInit(prog, g); val != nil {
				return resolveTagName(prog, val, g.Pkg.Func("init"), depth+1)
			}
		}
		// load of a local cell / element: find the stores
		if a, ok := x.X.(*ssa.Alloc); ok {
			var out []string
			for _, st := range storesTo(a) {
				t, ok := resolveTagName(prog, st.val, st.fn, depth+1)
				if !ok {
					return nil, false
				}
				out = append(out, t...)
			}
			return uniq(out), len(out) > 0
		}
		// captured variable of a closure: the stores of the enclosing function (and the closure)
		if fv, ok := x.X.(*ssa.FreeVar); ok {
			if a := freeVarAlloc(fn, fv); a != nil {
				var out []string
				for _, st := range storesTo(a) {
					t, ok := resolveTagName(prog, st.val, st.fn, depth+1)
					if !ok {
						return nil, false
					}
					out = append(out, t...)
				}
				return uniq(out), len(out) > 0
			}
		}
	case *ssa.Parameter:
		idx := paramIndex(fn, x)
		var out []string
		for _, caller := range prog.funcs {
			if caller.Blocks == nil {
				continue
			}
			for _, b := range caller.Blocks {
				for _, in := range b.Instrs {
					cc := callCommonOf(in)
					if cc == nil || cc.StaticCallee() != fn || idx >= len(cc.Args) {
						continue
					}
					s, ok := resolveTagName(prog, cc.Args[idx], caller, depth+1)
					if !ok {
						return nil, false
					}
					out = append(out, s...)
				}
			}
		}
		return uniq(out), len(out) > 0
	}
	return nil, false
}

// resolveTagSlice: the label names of a variadic ...metrics.T argument.
func resolveTagSlice(prog *Program, v ssa.Value, fn *ssa.Function, depth int) ([]string, bool, string) {
	if depth > 10 {
		return nil, false, "tag list too indirect"
	}
	switch x := v.(type) {
	case *ssa.Const:
		if x.Value == nil {
			return nil, true, ""
		}
	case *ssa.Slice:
		// slice of a varargs array: collect the stores into its elements
		a, ok := x.X.(*ssa.Alloc)
		if !ok {
			return resolveTagSlice(prog, x.X, fn, depth+1)
		}
		var out []string
		for _, r := range *a.Referrers() {
			ia, ok := r.(*ssa.IndexAddr)
			if !ok {
				continue
			}
			for _, r2 := range *ia.Referrers() {
				if s, ok := r2.(*ssa.Store); ok {
					n, ok := resolveTagName(prog, s.Val, fn, depth+1)
					if !ok || len(n) != 1 {
						return nil, false, "a tag's label name is not a single compile-time constant"
					}
					out = append(out, n[0])
				}
			}
		}
		sort.Strings(out)
		return out, true, ""
	case *ssa.Call:
		// append(tags, more...)
		if b, ok := x.Call.Value.(*ssa.Builtin); ok && b.Name() == "append" {
			a, ok1, w1 := resolveTagSlice(prog, x.Call.Args[0], fn, depth+1)
			c, ok2, w2 := resolveTagSlice(prog, x.Call.Args[1], fn, depth+1)
			if !ok1 {
				return nil, false, w1
			}
			if !ok2 {
				return nil, false, w2
			}
			out := append(append([]string{}, a...), c...)
			sort.Strings(out)
			return out, true, ""
		}
	case *ssa.Parameter:
		idx := paramIndex(fn, x)
		var res []string
		first := true
		for _, caller := range prog.funcs {
			if caller.Blocks == nil {
				continue
			}
			for _, b := range caller.Blocks {
				for _, in := range b.Instrs {
					cc := callCommonOf(in)
					if cc == nil || cc.StaticCallee() != fn || idx >= len(cc.Args) {
						continue
					}
					s, ok, w := resolveTagSlice(prog, cc.Args[idx], caller, depth+1)
					if !ok {
						return nil, false, w
					}
					if first {
						res, first = s, false
					} else if strings.Join(res, ",") != strings.Join(s, ",") {
						return nil, false, "callers pass different label sets"
					}
				}
			}
		}
		if first {
			return nil, false, "no caller found for a tag-list parameter"
		}
		return res, true, ""
	case *ssa.Phi:
		var res []string
		for i, e := range x.Edges {
			s, ok, w := resolveTagSlice(prog, e, fn, depth+1)
			if !ok {
				return nil, false, w
			}
			if i == 0 {
				res = s
			} else if strings.Join(res, ",") != strings.Join(s, ",") {
				return nil, false, "different label sets on different paths"
			}
		}
		return res, true, ""
	case *ssa.UnOp:
		if fa, ok := x.X.(*ssa.FieldAddr); ok {
			// a tag list kept in a struct field: every store to that field in the program must agree
			var res []string
			n := 0
			for _, f2 := range prog.funcs {
				if f2.Blocks == nil {
					continue
				}
				for _, b := range f2.Blocks {
					for _, in := range b.Instrs {
						st, ok := in.(*ssa.Store)
						if !ok {
							continue
						}
						fa2, ok := st.Addr.(*ssa.FieldAddr)
						if !ok || fa2.Field != fa.Field || fa2.X.Type().String() != fa.X.Type().String() {
							continue
						}
						t, ok, w := resolveTagSlice(prog, st.Val, f2, depth+1)
						if !ok {
							return nil, false, w
						}
						if n > 0 && strings.Join(res, ",") != strings.Join(t, ",") {
							return nil, false, "a tag-list field is assigned different label sets"
						}
						res = t
						n++
					}
				}
			}
			return res, n > 0, "tag-list field never assigned"
		}
		if a, ok := x.X.(*ssa.Alloc); ok {
			// a local []T variable: last store wins is path dependent; require a single store chain
			var res []string
			n := 0
			for _, r := range *a.Referrers() {
				if s, ok := r.(*ssa.Store); ok && s.Addr == ssa.Value(a) {
					t, ok, w := resolveTagSlice(prog, s.Val, fn, depth+1)
					if !ok {
						return nil, false, w
					}
					if len(t) >= len(res) {
						res = t
					}
					n++
				}
			}
			return res, n > 0, "tag list variable never assigned"
		}
	}
	return nil, false, fmt.Sprintf("tag list built in an unsupported way (%T)", v)
}

type storeRec struct {
	val ssa.Value
	fn  *ssa.Function
}

// storesTo lists the stores into a local variable's cell, in its function and in closures capturing it.
func storesTo(a *ssa.Alloc) []storeRec {
	var out []storeRec
	for _, r := range *a.Referrers() {
		switch u := r.(type) {
		case *ssa.Store:
			if u.Addr == ssa.Value(a) {
				out = append(out, storeRec{u.Val, a.Parent()})
			}
		case *ssa.MakeClosure:
			cl := u.Fn.(*ssa.Function)
			for i, b := range u.Bindings {
				if b != ssa.Value(a) {
					continue
				}
				for _, r2 := range *cl.FreeVars[i].Referrers() {
					if s2, ok := r2.(*ssa.Store); ok && s2.Addr == ssa.Value(cl.FreeVars[i]) {
						out = append(out, storeRec{s2.Val, cl})
					}
				}
			}
		}
	}
	return out
}

// freeVarAlloc finds the enclosing function's variable bound to a closure's free variable.
func freeVarAlloc(cl *ssa.Function, fv *ssa.FreeVar) *ssa.Alloc {
	parent := cl.Parent()
	if parent == nil {
		return nil
	}
	idx := -1
	for i, v := range cl.FreeVars {
		if v == fv {
			idx = i
		}
	}
	for _, b := range parent.Blocks {
		for _, in := range b.Instrs {
			if mc, ok := in.(*ssa.MakeClosure); ok && mc.Fn == ssa.Value(cl) && idx >= 0 && idx < len(mc.Bindings) {
				if a, ok := mc.Bindings[idx].(*ssa.Alloc); ok {
					return a
				}
			}
		}
	}
	return nil
}
