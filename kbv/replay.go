package main

import (
	"context"
	"encoding/json"
	"fmt"
	"os"
	"os/exec"
	"path/filepath"
	"strings"
	"time"
)

type replayTpl struct {
	Template string `json:"template"`
	Pkg      string `json:"pkg"`
	Case     string `json:"case"`
	Race     bool   `json:"race"`
}

// replayTemplate runs the hand-written scenario registered for an obligation (by its name
// without the "#k" return ordinal) against the real code under the repository being checked.
func replayTemplate(prog *Program, prop string, r *oblResult, name string) (bool, string, bool) {
	b, err := os.ReadFile(filepath.Join(verifDir, "replay_templates", "index.json"))
	if err != nil {
		return false, "", false
	}
	idx := map[string]replayTpl{}
	if json.Unmarshal(b, &idx) != nil {
		return false, "", false
	}
	base := r.O.Name
	if i := strings.Index(base, "#"); i >= 0 {
		base = base[:i]
	}
	tpl, ok := idx[base]
	if !ok {
		return false, "", false
	}
	src, err := os.ReadFile(filepath.Join(verifDir, "replay_templates", tpl.Template))
	if err != nil {
		return false, "template missing: " + err.Error(), true
	}
	test := strings.Replace(string(src), "// KBV-CASE", tpl.Case, 1)
	rdir := filepath.Join(verifDir, "replays", prop)
	_ = os.MkdirAll(rdir, 0o755)
	testPath := filepath.Join(rdir, name+"_test.go.txt")
	_ = os.WriteFile(testPath, []byte(test), 0o644)
	pkgDir := filepath.Join(prog.repo, tpl.Pkg)
	ov := map[string]map[string]string{"Replace": {filepath.Join(pkgDir, "zz_kbv_replay_test.go"): testPath}}
	ovb, _ := json.Marshal(ov)
	ovPath := filepath.Join(rdir, name+".overlay.json")
	_ = os.WriteFile(ovPath, ovb, 0o644)
	ctx, cancel := context.WithTimeout(context.Background(), 300*time.Second)
	defer cancel()
	args := []string{"test", "-overlay", ovPath, "-vet=off", "-count=1", "-timeout", "120s", "-run", "^TestKbvReplay$", "-v"}
	if tpl.Race {
		args = append(args, "-race")
	}
	args = append(args, ".")
	cmd := exec.CommandContext(ctx, "go", args...)
	cmd.Dir = pkgDir
	cmd.Env = append(os.Environ(), "GOFLAGS=-mod=mod", "GOPROXY=off", "GOSUMDB=off", "GOTOOLCHAIN=local")
	out, _ := cmd.CombinedOutput()
	o := string(out)
	if len(o) > 6000 {
		o = o[:3000] + "\n...\n" + o[len(o)-3000:]
	}
	log := fmt.Sprintf("replay test: %s\ncommand: (cd %s && go %s)\n%s", testPath, pkgDir, strings.Join(args, " "), o)
	return strings.Contains(string(out), "KBV-REPRODUCED") || (tpl.Race && strings.Contains(string(out), "DATA RACE")), log, true
}

// writeReplay writes the replay file of a failed obligation and, when the model can be
// turned into inputs of the real function, runs it against the real code.
var noReplay bool // canary runs: report failures without replaying them or writing replay files

func writeReplay(prog *Program, prop string, r *oblResult) (string, string) {
	if noReplay {
		return "-", " no-failing-input-found"
	}
	name := strings.NewReplacer("/", "_", ":", "_", "(", "", ")", "", "*", "", "$", "_", "#", "_").Replace(r.O.Name)
	path := filepath.Join(verifDir, "replays", prop, name+".txt")
	var sb strings.Builder
	fmt.Fprintf(&sb, "property: %s\nobligation: %s\nkind: %s\nstatement: %s\ncontract location: %s\nsolver status: %s (%s)\n", prop, r.O.Name, r.O.Kind, r.O.Text, r.O.Where, r.Res.Status, r.Res.Solver)
	suffix := " no-failing-input-found"
	if ok, log, had := replayTemplate(prog, prop, r, name); had {
		if r.Res.Status == "sat" {
			fmt.Fprintf(&sb, "\nmodel (values of the function's parameters):\n%s\n", r.Res.Model)
		} else {
			fmt.Fprintf(&sb, "\nsolver output:\n%s\n", r.Res.Output)
		}
		sb.WriteString("\nreplay against the real code (scenario template for this obligation):\n" + log + "\n")
		if ok {
			suffix = ""
		}
	} else if r.Res.Status == "sat" && r.G != nil {
		fmt.Fprintf(&sb, "\nmodel (values of the function's parameters):\n%s\n", r.Res.Model)
		ok, log := replayModel(prog, prop, r, name)
		sb.WriteString("\nreplay against the real code:\n" + log + "\n")
		if ok {
			suffix = ""
		}
	} else {
		fmt.Fprintf(&sb, "\nsolver output:\n%s\n", r.Res.Output)
	}
	qpath := filepath.Join(verifDir, "replays", prop, name+".smt2")
	_ = os.WriteFile(qpath, []byte(r.Q), 0o644)
	fmt.Fprintf(&sb, "\nSMT query: %s\n", qpath)
	_ = os.WriteFile(path, []byte(sb.String()), 0o644)
	return path, suffix
}
