package main

import (
	"fmt"
	"os"
	"path/filepath"
	"strings"
)

// writeReplay writes the replay file of a failed obligation and, when the model can be
// turned into inputs of the real function, runs it against the real code.
func writeReplay(prog *Program, prop string, r *oblResult) (string, string) {
	name := strings.NewReplacer("/", "_", ":", "_", "(", "", ")", "", "*", "", "$", "_", "#", "_").Replace(r.O.Name)
	path := filepath.Join(verifDir, "replays", prop, name+".txt")
	var sb strings.Builder
	fmt.Fprintf(&sb, "property: %s\nobligation: %s\nkind: %s\nstatement: %s\ncontract location: %s\nsolver status: %s (%s)\n", prop, r.O.Name, r.O.Kind, r.O.Text, r.O.Where, r.Res.Status, r.Res.Solver)
	suffix := " no-failing-input-found"
	if r.Res.Status == "sat" && r.G != nil {
		fmt.Fprintf(&sb, "\nmodel (values of the function's parameters):\n%s\n", r.Res.Model)
		ok, log := replayModel(prog, prop, r, name)
		sb.WriteString("\nreplay against the real code:\n" + log + "\n")
		if ok {
			suffix = ""
		}
	} else {
		fmt.Fprintf(&sb, "\nsolver output:\n%s\n", r.Res.Output)
	}
	qpath := filepath.Join(verifDir, "replays", prop, name+".smt2")
	_ = os.WriteFile(qpath, []byte(r.Q), 0o644)
	fmt.Fprintf(&sb, "\nSMT query: %s\n", qpath)
	_ = os.WriteFile(path, []byte(sb.String()), 0o644)
	return path, suffix
}
