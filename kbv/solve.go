package main

import (
	"bytes"
	"context"
	"fmt"
	"os"
	"os/exec"
	"path/filepath"
	"regexp"
	"strings"
	"sync"
	"syscall"
	"time"
)

type SolverResult struct {
	Status  string // unsat | sat | unknown | timeout | error
	Solver  string
	Seconds float64
	Output  string
	Model   string
	All     map[string]string // solver -> status (thorough tier)
}

type solverSpec struct {
	name string
	bin  string
	args []string
}

var solvers = []solverSpec{
	{"z3-5.1.0", "z3-new", []string{"-smt2"}},
	{"z3-4.8.12", "z3", []string{"-smt2"}},
	{"cvc5-1.0.3", "cvc5", []string{"--lang=smt2", "--produce-models"}},
	// same solver, relevancy filtering off: decides the scan-loop step lemmas in under a second
	// where the default configuration wanders for half a minute
	{"z3-5.1.0-norelevancy", "z3-new", []string{"-smt2", "smt.relevancy=0"}},
}

// prlimitBin: util-linux prlimit, used to give every solver process a CPU-time budget
var prlimitBin = func() string {
	if os.Getenv("KBV_WALLCLOCK") != "" {
		return ""
	}
	p, err := exec.LookPath("prlimit")
	if err != nil {
		return ""
	}
	return p
}()

// wallFactor: the wall-clock guard is this many times the CPU budget
const wallFactor = 10

var reCvc5Lambda = regexp.MustCompile(`\(lambda `)

func dialect(s solverSpec, q string) string {
	if strings.HasPrefix(s.name, "cvc5") {
		// cvc5 wants produce-models before set-logic (given on the command line) and has no (lambda)
		return q
	}
	return q
}

// runSolvers races the solvers on one query. needAll makes it wait for every solver
// (thorough tier: agreement of independent back ends is recorded).
// lightSolvers: cover (reachability / vacuity) checks are informational -- a `sat` confirms that a
// return or a precondition is reachable, an `unsat` is what matters and comes quickly -- so they
// are raced on two back ends only; most of a run's CPU time used to go into covers that stay
// inconclusive on all four.

func runSolversLight(query string, file string, timeout time.Duration, seed int) SolverResult {
	saved := solvers
	return runSolversOn([]solverSpec{saved[0], saved[2]}, query, file, timeout, false, nil, false, seed)
}

func runSolvers(query string, file string, timeout time.Duration, wantModel bool, modelTerms []string, needAll bool, seed int) SolverResult {
	return runSolversOn(solvers, query, file, timeout, wantModel, modelTerms, needAll, seed)
}

func runSolversOn(solvers []solverSpec, query string, file string, timeout time.Duration, wantModel bool, modelTerms []string, needAll bool, seed int) SolverResult {
	if err := os.WriteFile(file, []byte(query), 0o644); err != nil {
		return SolverResult{Status: "error", Output: err.Error()}
	}
	// The limit is CPU time per solver process (prlimit), not wall-clock time: on a machine that is
	// busy with other checks a query that needs ten seconds of work must not turn into a timeout --
	// and so into an alarm -- because it was scheduled a tenth of the time. The wall-clock guard is
	// only there to end a run on a machine that gives the solvers no time at all.
	cpuSecs := int(timeout.Seconds() + 0.5)
	if cpuSecs < 1 {
		cpuSecs = 1
	}
	wall := timeout
	if prlimitBin != "" {
		wall = timeout * wallFactor
	}
	ctx, cancel := context.WithTimeout(context.Background(), wall)
	defer cancel()
	type one struct {
		status, out, solver string
		secs                float64
	}
	ch := make(chan one, len(solvers))
	var wg sync.WaitGroup
	for _, s := range solvers {
		wg.Add(1)
		go func(s solverSpec) {
			defer wg.Done()
			q := dialect(s, query)
			if wantModel && len(modelTerms) > 0 {
				q += "(get-value (" + strings.Join(modelTerms, " ") + "))\n"
			}
			f := file + "." + s.name + ".smt2"
			_ = os.WriteFile(f, []byte(q), 0o644)
			args := append([]string{}, s.args...)
			if seed != 0 && strings.HasPrefix(s.name, "z3") {
				args = append(args, fmt.Sprintf("smt.random_seed=%d", seed), fmt.Sprintf("sat.random_seed=%d", seed))
			}
			if seed != 0 && strings.HasPrefix(s.name, "cvc5") {
				args = append(args, fmt.Sprintf("--seed=%d", seed))
			}
			args = append(args, f)
			start := time.Now()
			bin := s.bin
			if prlimitBin != "" {
				args = append([]string{fmt.Sprintf("--cpu=%d", cpuSecs), s.bin}, args...)
				bin = prlimitBin
			}
			cmd := exec.CommandContext(ctx, bin, args...)
			// a solver must not outlive this process (a killed check would leave it spinning)
			cmd.SysProcAttr = &syscall.SysProcAttr{Pdeathsig: syscall.SIGKILL}
			var out bytes.Buffer
			cmd.Stdout = &out
			cmd.Stderr = &out
			_ = cmd.Run()
			secs := time.Since(start).Seconds()
			cpuKilled := false
			if ps := cmd.ProcessState; ps != nil {
				if prlimitBin != "" {
					secs = (ps.UserTime() + ps.SystemTime()).Seconds()
				}
				if ws, ok := ps.Sys().(syscall.WaitStatus); ok && ws.Signaled() && (ws.Signal() == syscall.SIGXCPU || (ws.Signal() == syscall.SIGKILL && ctx.Err() == nil)) {
					cpuKilled = true
				}
			}
			_ = os.Remove(f)
			text := out.String()
			first := strings.TrimSpace(strings.SplitN(strings.TrimSpace(text), "\n", 2)[0])
			status := "unknown"
			switch first {
			case "unsat", "sat", "unknown":
				status = first
			default:
				if ctx.Err() != nil || cpuKilled {
					status = "timeout"
				} else {
					status = "error"
				}
			}
			ch <- one{status, text, s.name, secs}
		}(s)
	}
	go func() { wg.Wait(); close(ch) }()
	res := SolverResult{Status: "timeout", All: map[string]string{}}
	decided := false
	first := true
	for r := range ch {
		res.All[r.solver] = r.status
		if decided {
			// disagreement check
			if (r.status == "sat" || r.status == "unsat") && r.status != res.Status {
				res.Output += fmt.Sprintf("\nDISAGREEMENT: %s says %s", r.solver, r.status)
				res.Status = "error"
			}
			continue
		}
		if r.status == "unsat" || r.status == "sat" {
			res.Status, res.Solver, res.Seconds, res.Output = r.status, r.solver, r.secs, r.out
			if r.status == "sat" {
				if i := strings.Index(r.out, "\n"); i >= 0 {
					res.Model = strings.TrimSpace(r.out[i+1:])
				}
			}
			decided = true
			if !needAll {
				cancel()
			}
			continue
		}
		// undecided answers: "unknown" outranks "timeout" outranks "error" (a solver that could not
		// run or rejected the query only matters if none of the others ran either)
		rank := map[string]int{"error": 0, "timeout": 1, "unknown": 2}
		if first || rank[r.status] > rank[res.Status] {
			first = false
			if !decided {
				res.Status = r.status
				res.Solver = r.solver
				res.Seconds = r.secs
				if len(r.out) > 2000 {
					r.out = r.out[:2000]
				}
				res.Output += "[" + r.solver + "] " + r.out + "\n"
			}
		}
	}
	return res
}

func workDir(prop string) string {
	d := filepath.Join(os.TempDir(), "kbv-work", prop)
	if w := os.Getenv("KBV_WORK"); w != "" {
		d = filepath.Join(w, prop)
	}
	_ = os.MkdirAll(d, 0o755)
	return d
}
