package main

import (
	"fmt"
	"go/types"
	"sort"
	"strings"

	"golang.org/x/tools/go/ssa"
)

type Obligation struct {
	Name   string // stable name: <pkg>.<func>:<kind>.<label>
	Kind   string
	Func   string
	Where  string
	Text   string // human readable statement
	Prefix int    // number of context lines
	Goal   string // SMT Bool that must be valid in the context (already includes reachability)
	Expect string // "unsat" (proof obligation) or "sat" (vacuity / cover check)
	Props  []string
}

// Gen generates the verification conditions of one function.
type Gen struct {
	calleeDepth int // > 0 while a callee's contract is being compiled at a call site
	ghostRes ssa.Value // result of the built-in model a ghost-only contract is layered on
	callLocked map[string]T // non-nil while a callee's postconditions are applied at a call site
	prog *Program
	cs   *Contracts
	lib  *SpecLib
	te   *TEnv

	fn  *ssa.Function
	ct  *Contract
	pkg *types.Package

	lines    []string
	declared map[string]bool
	nfresh   int
	obls     []*Obligation
	kindSeq  map[string]int

	vals     map[ssa.Value]T
	tuples   map[ssa.Value][]T
	reach    map[*ssa.BasicBlock]string
	out      map[*ssa.BasicBlock]State
	edgeCond map[[2]int]string
	entry    State
	paramEnv map[string]T
	strs     map[string]T

	loops     map[*ssa.BasicBlock]*loopInfo
	loopOrd   []*ssa.BasicBlock
	blockMods map[*ssa.BasicBlock]map[string]*Sort
	writeLog  map[*ssa.BasicBlock][]writeRec
	dry       bool
	curBlock  *ssa.BasicBlock
	curMods   map[string]*Sort
	defs      map[string][]nameDef // local variable name -> definitions
	deferred  map[*ssa.BasicBlock][]*ssa.Defer
	deferSt   []*ssa.Defer
	stSorts   map[string]*Sort

	stepVals        map[string][2]T
	errSt           State
	volatile        map[string]bool
	lockSt          State
	staleInv        []string
	headSt          map[*ssa.BasicBlock]State
	headVars        map[*ssa.BasicBlock]map[string]T
	curHead         *ssa.BasicBlock
	interfered      map[string]bool // guarded fields havocked at lock acquisition (interference, not our writes)
	frameStructural map[string]bool
	errQuantDone    bool
	notes           map[string]bool
	assumed         map[string]bool
	errs            []string
	modelVars       []ModelVar

	// inlining of contract-less helpers (inline.go)
	inl       *inlineCtx
	inlReach  string
	inlPrefix string
	inlSeq    int
	inlStack  map[*ssa.Function]bool
}

type ModelVar struct {
	Name string // go-level name
	Term string // SMT term to evaluate
	Sort *Sort
	GoT  string
}

type nameDef struct {
	block *ssa.BasicBlock
	pos   int
	val   ssa.Value
	addr  bool
}

type loopInfo struct {
	header *ssa.BasicBlock
	body   map[*ssa.BasicBlock]bool
	ord    int
	back   []*ssa.BasicBlock
}

func newGen(prog *Program, fn *ssa.Function, ct *Contract) *Gen {
	g := &Gen{prog: prog, cs: prog.cs, lib: prog.lib, te: newTEnv(), fn: fn, ct: ct}
	if fn != nil && fn.Pkg != nil {
		g.pkg = fn.Pkg.Pkg
	}
	g.reset()
	return g
}

func (g *Gen) reset() {
	g.lines = nil
	g.declared = map[string]bool{}
	g.nfresh = 0
	g.obls = nil
	g.kindSeq = map[string]int{}
	g.vals = map[ssa.Value]T{}
	g.tuples = map[ssa.Value][]T{}
	g.reach = map[*ssa.BasicBlock]string{}
	g.out = map[*ssa.BasicBlock]State{}
	g.edgeCond = map[[2]int]string{}
	g.entry = State{}
	g.strs = map[string]T{}
	g.stSorts = map[string]*Sort{}
	g.notes = map[string]bool{}
	g.assumed = map[string]bool{}
	g.deferSt = nil
	g.modelVars = nil
	g.stepVals = nil
	g.volatile = nil
	g.lockSt = nil
	g.interfered = map[string]bool{}
	g.frameStructural = map[string]bool{}
	g.inl, g.inlReach, g.inlPrefix, g.inlSeq, g.inlStack = nil, "", "", 0, nil
}

func (g *Gen) note(format string, a ...interface{}) {
	g.notes[fmt.Sprintf(format, a...)] = true
}

func (g *Gen) errorf(format string, a ...interface{}) {
	m := fmt.Sprintf(format, a...)
	for _, e := range g.errs {
		if e == m {
			return
		}
	}
	g.errs = append(g.errs, m)
}

func (g *Gen) emit(line string) {
	g.lines = append(g.lines, line)
}

func (g *Gen) declare(name string, so *Sort) {
	if g.declared[name] {
		return
	}
	g.declared[name] = true
	g.emit(fmt.Sprintf("(declare-const %s %s)", name, so.Name))
}

func (g *Gen) fresh(prefix string, so *Sort) string {
	g.nfresh++
	name := fmt.Sprintf("|%s!%d|", strings.Trim(prefix, "|"), g.nfresh)
	g.declare(name, so)
	return name
}

func (g *Gen) define(prefix string, so *Sort, term string) string {
	// keep trivially small terms inline
	if len(term) < 24 && !strings.Contains(term, " ") {
		return term
	}
	g.nfresh++
	name := fmt.Sprintf("|%s!%d|", strings.Trim(prefix, "|"), g.nfresh)
	g.declared[name] = true
	if strings.HasPrefix(so.Name, "(Array") || (so.Name == "Slice" && strings.Contains(term, "(ite ")) {
		// (a slice chosen by a condition -- the result of append -- too: as a macro it would put an
		// ite into every quantifier pattern over its elements, which the solvers reject)
		// heaps are real constants (not macros) so that they can appear in quantifier patterns
		g.emit(fmt.Sprintf("(declare-const %s %s)", name, so.Name))
		g.emit(fmt.Sprintf("(assert (= %s %s))", name, term))
		return name
	}
	g.emit(fmt.Sprintf("(define-fun %s () %s %s)", name, so.Name, term))
	return name
}

func (g *Gen) assume(term string) {
	if term == "true" {
		return
	}
	g.emit("(assert " + term + ")")
}

// stGet returns the current term of state component name, creating the function-entry
// constant when it has never been touched.
func (g *Gen) stGet(st State, name string, so *Sort) string {
	if v, ok := st[name]; ok {
		return v
	}
	init := "|" + name + "@in|"
	if old, ok := g.stSorts[name]; ok {
		so = old
	} else {
		g.stSorts[name] = so
	}
	g.declare(init, so)
	g.entry[name] = init
	st[name] = init
	return init
}

func (g *Gen) stSet(st State, name string, so *Sort, term string) {
	if _, ok := g.stSorts[name]; !ok {
		g.stGet(st, name, so)
	}
	st[name] = g.define(name, g.stSorts[name], term)
	if g.curMods != nil {
		g.curMods[name] = g.stSorts[name]
	}
}

func (g *Gen) stHavoc(st State, name string, so *Sort) string {
	if _, ok := g.stSorts[name]; !ok {
		g.stGet(st, name, so)
	}
	v := g.fresh(name, g.stSorts[name])
	st[name] = v
	if g.curMods != nil {
		g.curMods[name] = g.stSorts[name]
	}
	return v
}

func (g *Gen) fieldHeapName(structT types.Type, field string) string {
	return "F." + typeKey(structT) + "." + field
}

func (g *Gen) elemHeapName(elemT types.Type) string {
	return "E." + typeKey(elemT)
}

func (g *Gen) elemHeapSort(el *Sort) *Sort {
	return &Sort{K: KRaw, Name: "(Array Int (Array Int " + el.Name + "))"}
}

func (g *Gen) globalName(v *types.Var) string {
	return "G." + sanitize(v.Pkg().Path()) + "." + v.Name()
}

func (g *Gen) elemOf(t types.Type) (*Sort, types.Type) {
	if t == nil {
		return nil, nil
	}
	switch u := t.Underlying().(type) {
	case *types.Slice:
		return g.te.sortOf(u.Elem()), u.Elem()
	case *types.Array:
		return g.te.sortOf(u.Elem()), u.Elem()
	case *types.Pointer:
		if a, ok := u.Elem().Underlying().(*types.Array); ok {
			return g.te.sortOf(a.Elem()), a.Elem()
		}
	case *types.Basic:
		if u.Info()&types.IsString != 0 {
			return SBV8, types.Typ[types.Uint8]
		}
	}
	return nil, nil
}

func (g *Gen) importedPkg(from *types.Package, name string) *types.Package {
	if from != nil {
		if path, ok := g.prog.aliases[from.Path()][name]; ok {
			for _, imp := range from.Imports() {
				if imp.Path() == path {
					return imp
				}
			}
		}
		for _, imp := range from.Imports() {
			if imp.Name() == name {
				return imp
			}
		}
	}
	// spec files may use well-known short names
	if p, ok := g.prog.byName[name]; ok {
		return p
	}
	return nil
}

func (g *Gen) rawAccessorSort(name string) *Sort {
	if sf, ok := g.lib.Funcs["acc!"+name]; ok {
		return rawSort(sf.Ret)
	}
	if so, ok := g.lib.accessorSort(name); ok {
		return rawSort(so)
	}
	return SMath
}

func (g *Gen) tagByName(s string) int {
	// s like "*storage.Conflict": match against known type keys by suffix
	for k, v := range g.te.tags {
		if strings.HasSuffix(k, s) || k == s {
			return v
		}
	}
	// allocate by resolving through program types
	if t := g.prog.lookupType(s); t != nil {
		return g.te.tagOf(t)
	}
	g.errorf("typeis: unknown type %s", s)
	return -1
}

// strConst returns a Str constant with axioms fixing its bytes.
func (g *Gen) strConst(s string) T {
	if t, ok := g.strs[s]; ok {
		return t
	}
	g.nfresh++
	name := fmt.Sprintf("|str!%d|", g.nfresh)
	arr := "((as const (Array Int (_ BitVec 8))) #x00)"
	for i := 0; i < len(s); i++ {
		arr = fmt.Sprintf("(store %s %d %s)", arr, i, bvLit(uint64(s[i]), 8))
	}
	g.declared[name] = true
	g.emit(fmt.Sprintf("(define-fun %s () Str (mkstr %s %d))", name, arr, len(s)))
	t := T{S: name, So: SStr, GoT: types.Typ[types.String]}
	g.strs[s] = t
	return t
}

// newObligation registers a proof obligation whose context is everything emitted so far.
func (g *Gen) newObligation(kind, label, text, where, goal string) {
	if g.dry {
		return
	}
	if label == "" {
		g.kindSeq[kind]++
		label = fmt.Sprint(g.kindSeq[kind] - 1)
	} else {
		key := kind + "." + label
		g.kindSeq[key]++
		if n := g.kindSeq[key]; n > 1 {
			label = fmt.Sprintf("%s#%d", label, n-1)
		}
	}
	fname := funcDisplayName(g.fn)
	o := &Obligation{
		Name:   fname + ":" + kind + "." + label,
		Kind:   kind,
		Func:   fname,
		Where:  where,
		Text:   text,
		Prefix: len(g.lines),
		Goal:   goal,
		Expect: "unsat",
	}
	g.obls = append(g.obls, o)
	// later obligations may assume this one
	g.assume(goal)
}

func (g *Gen) newCover(kind, label, text, where, cond string) {
	if g.dry {
		return
	}
	fname := funcDisplayName(g.fn)
	o := &Obligation{
		Name:   fname + ":" + kind + "." + label,
		Kind:   kind,
		Func:   fname,
		Where:  where,
		Text:   text,
		Prefix: len(g.lines),
		Goal:   cond,
		Expect: "sat",
	}
	g.obls = append(g.obls, o)
}

func funcDisplayName(fn *ssa.Function) string {
	if fn == nil {
		return "?"
	}
	pkg := ""
	if fn.Pkg != nil {
		pkg = sanitize(fn.Pkg.Pkg.Path()) + "."
	}
	return pkg + fn.RelString(fn.Pkg.Pkg)
}

// query renders the SMT-LIB text of one obligation.
func (g *Gen) query(o *Obligation) string {
	var body strings.Builder
	for _, l := range g.lines[:o.Prefix] {
		body.WriteString(l)
		body.WriteString("\n")
	}
	if o.Expect == "sat" {
		body.WriteString("(assert " + o.Goal + ")\n")
	} else {
		body.WriteString("(assert (not " + o.Goal + "))\n")
	}
	body.WriteString("(check-sat)\n")
	bs := body.String()
	var sb strings.Builder
	sb.WriteString(prelude)
	sb.WriteString(g.te.decls())
	sb.WriteString(g.lib.TextUsed(g.reveals(), bs))
	sb.WriteString(bs)
	return sb.String()
}

func sortedNotes(m map[string]bool) []string {
	var out []string
	for k := range m {
		out = append(out, k)
	}
	sort.Strings(out)
	return out
}

// accessorSort finds the sort of a datatype accessor declared in the spec library text.
func (lib *SpecLib) accessorSort(name string) (string, bool) {
	if lib.acc == nil {
		lib.acc = map[string]string{}
		for _, sx := range parseSexps(lib.Text) {
			ch := sexpChildren(sx)
			if len(ch) < 3 || ch[0] != "declare-datatypes" {
				continue
			}
			for _, dt := range sexpChildren(ch[2]) {
				for _, ctor := range sexpChildren(dt) {
					cc := sexpChildren(ctor)
					for _, f := range cc[1:] {
						fc := sexpChildren(f)
						if len(fc) == 2 {
							lib.acc[fc[0]] = fc[1]
						}
					}
				}
			}
		}
	}
	s, ok := lib.acc[name]
	return s, ok
}

func (g *Gen) reveals() map[string]bool {
	m := map[string]bool{}
	if g.ct != nil {
		for _, r := range g.ct.Reveal {
			m[r] = true
		}
	}
	return m
}
