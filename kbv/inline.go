package main

import (
	"fmt"
	"sort"

	"golang.org/x/tools/go/ssa"
)

// Inlining of helpers that carry no contract.
//
// Verification is modular: at a call only the callee's contract is known. A function of the
// loaded program WITHOUT a contract used to be abstracted to "results arbitrary, inferred write
// set arbitrary" -- sound, but it turns the everyday refactoring "extract a helper" into failed
// obligations on code that still satisfies its contract. A callee that is
//   - a static call to a function of the same package with a body,
//   - free of loops, defers, goroutines and selects (nothing that needs an annotation),
//   - not already being inlined (no recursion), at most three levels deep,
// is therefore executed symbolically in place: its parameters are bound to the arguments, its
// blocks are run on a copy of the caller's state, and the states and results at its return
// instructions are merged back. Safety obligations inside the body are generated as for the
// caller's own code. This is exact (no abstraction), so nothing is assumed.

type inlRet struct {
	reach string
	st    State
	vals  []T
}

type inlineCtx struct {
	rets []inlRet
}

const maxInlineDepth = 3
const maxInlineBlocks = 60

func (g *Gen) canInline(f *ssa.Function) bool {
	if f == nil || f.Blocks == nil || len(f.Blocks) > maxInlineBlocks || len(f.FreeVars) > 0 {
		return false
	}
	if g.fn.Pkg == nil || f.Pkg != g.fn.Pkg {
		return false
	}
	if g.inlStack[f] || len(g.inlStack) >= maxInlineDepth {
		return false
	}
	if f.Recover != nil {
		return false
	}
	hasRet := false
	for _, b := range f.Blocks {
		for _, s := range b.Succs {
			if s.Dominates(b) {
				return false // a loop: needs an invariant, i.e. a contract
			}
		}
		for _, in := range b.Instrs {
			switch in.(type) {
			case *ssa.Defer, *ssa.RunDefers, *ssa.Go, *ssa.Select:
				return false
			case *ssa.Return:
				hasRet = true
			}
		}
	}
	return hasRet
}

func rpoOf(f *ssa.Function) []*ssa.BasicBlock {
	seen := map[*ssa.BasicBlock]bool{}
	var post []*ssa.BasicBlock
	var dfs func(b *ssa.BasicBlock)
	dfs = func(b *ssa.BasicBlock) {
		seen[b] = true
		for _, s := range b.Succs {
			if !seen[s] {
				dfs(s)
			}
		}
		post = append(post, b)
	}
	dfs(f.Blocks[0])
	for i, j := 0, len(post)-1; i < j; i, j = i+1, j-1 {
		post[i], post[j] = post[j], post[i]
	}
	return post
}

func copyState(st State) State {
	c := State{}
	for k, v := range st {
		c[k] = v
	}
	return c
}

// inlineCall runs callee in place of the call instruction. It returns false (and has done
// nothing) when the callee is not eligible.
func (g *Gen) inlineCall(v ssa.Value, callee *ssa.Function, c *ssa.CallCommon, st State, reach string) bool {
	if c.IsInvoke() || !g.canInline(callee) || len(c.Args) != len(callee.Params) {
		return false
	}
	g.note("call without contract: %s: executed in place (loop-free helper of the same package)", trimName(calleeName(c)))
	// bind parameters
	for i, p := range callee.Params {
		a := g.val(c.Args[i])
		g.vals[p] = a
	}
	savedEdge, savedBlock, savedMods, savedInl, savedReach, savedPrefix := g.edgeCond, g.curBlock, g.curMods, g.inl, g.inlReach, g.inlPrefix
	if g.inlStack == nil {
		g.inlStack = map[*ssa.Function]bool{}
	}
	g.inlStack[callee] = true
	g.inlSeq++
	g.inlPrefix = fmt.Sprintf("i%d.", g.inlSeq)
	g.edgeCond = map[[2]int]string{}
	ctx := &inlineCtx{}
	g.inl = ctx
	g.inlReach = reach
	pre := copyState(st)
	work := copyState(st)
	for _, b := range rpoOf(callee) {
		g.execBlock(b, work)
	}
	delete(g.inlStack, callee)
	g.edgeCond, g.curBlock, g.curMods, g.inl, g.inlReach, g.inlPrefix = savedEdge, savedBlock, savedMods, savedInl, savedReach, savedPrefix
	// the helper's writes are writes of the calling block: the loop-frame inference looks at the
	// write records of the blocks of a loop body, and the helper's own blocks are not among them.
	// Recorded without a base ("anywhere") unless the base is an allocation of the helper itself, so
	// that no frame is inferred from them. (Found by the
	// must-fail corpus: seed c16g went unreported after inlining was added -- its helper's write
	// happened inside a loop whose frame was then inferred as "this heap is not written".)
	if g.dry && savedBlock != nil {
		for _, b := range rpoOf(callee) {
			for _, w := range g.writeLog[b] {
				base := w.base
				if base != nil && !isFreshValue(base, 0) {
					base = nil // (a write into an object the helper allocated stays what it is: it touches nothing that existed before)
				}
				g.writeLog[savedBlock] = append(g.writeLog[savedBlock], writeRec{w.heap, base})
			}
		}
	}

	rets := ctx.rets
	if len(rets) == 0 {
		// every path of the helper ends in a panic (reported as safety obligations where those are on)
		g.assume(not(reach))
		g.havocResults(v, c, st)
		return true
	}
	// the helper returns (its panics are safety obligations of their own)
	var rs []string
	for _, r := range rets {
		rs = append(rs, r.reach)
	}
	g.assume(app("=>", reach, or(rs...)))
	// merge the states at the returns back into the caller's state
	names := map[string]bool{}
	for _, r := range rets {
		for n := range r.st {
			names[n] = true
		}
	}
	var ns []string
	for n := range names {
		ns = append(ns, n)
	}
	sort.Strings(ns)
	for _, n := range ns {
		var terms []string
		same := true
		for _, r := range rets {
			t, ok := r.st[n]
			if !ok {
				t = g.stGet(State{}, n, g.stSorts[n])
			}
			terms = append(terms, t)
			if t != terms[0] {
				same = false
			}
		}
		var merged string
		if same {
			merged = terms[0]
		} else {
			cur := terms[len(terms)-1]
			for i := len(terms) - 2; i >= 0; i-- {
				cur = app("ite", rets[i].reach, terms[i], cur)
			}
			merged = g.define(n, g.stSorts[n], cur)
		}
		if old, ok := pre[n]; !ok || old != merged {
			if g.curMods != nil && ok {
				g.curMods[n] = g.stSorts[n]
			} else if g.curMods != nil && !ok && merged != g.entry[n] {
				g.curMods[n] = g.stSorts[n]
			}
		}
		st[n] = merged
	}
	// results
	if v == nil {
		return true
	}
	res := c.Signature().Results()
	pick := func(i int) string {
		cur := rets[len(rets)-1].vals[i].S
		for k := len(rets) - 2; k >= 0; k-- {
			if rets[k].vals[i].S == cur {
				continue
			}
			cur = app("ite", rets[k].reach, rets[k].vals[i].S, cur)
		}
		return cur
	}
	switch res.Len() {
	case 0:
	case 1:
		g.setVal(v, pick(0))
	default:
		var ts []T
		for i := 0; i < res.Len(); i++ {
			so := g.te.sortOf(res.At(i).Type())
			ts = append(ts, T{S: g.define(fmt.Sprintf("%s.%d", v.Name(), i), so, pick(i)), So: so, GoT: res.At(i).Type()})
		}
		g.tuples[v] = ts
	}
	return true
}
