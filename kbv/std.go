package main

import (
	"fmt"
	"go/types"
	"strings"

	"golang.org/x/tools/go/ssa"
)

// bytesTriple returns (array, offset, length) of a []byte or string value.
func (g *Gen) bytesTriple(t T, st State) (string, string, string) {
	if t.So.K == KStr {
		return app("sarr", t.S), "0", app("slen", t.S)
	}
	h := g.stGet(st, "E.uint8", g.elemHeapSort(SBV8))
	return app("select", h, app("s_obj", t.S)), app("s_off", t.S), app("s_len", t.S)
}

func (g *Gen) specApp(name string, st State, args ...T) string {
	var parts []string
	for _, a := range args {
		if a.So.K == KSlice || a.So.K == KStr {
			x, y, z := g.bytesTriple(a, st)
			parts = append(parts, x, y, z)
		} else {
			parts = append(parts, a.S)
		}
	}
	return app(name, parts...)
}

// stdModel implements the assumed contracts of standard-library and third-party functions
// that the verified code calls. Each use is recorded as an assumption.
func (g *Gen) stdModel(v ssa.Value, name string, c *ssa.CallCommon, in ssa.Instruction, st State, reach string) bool {
	arg := func(i int) T { return g.val(c.Args[i]) }
	used := func() { g.assumed["std model: "+trimName(name)] = true }
	switch name {
	case "bytes.Equal":
		used()
		g.setVal(v, g.specApp("bytes_eq", st, arg(0), arg(1)))
		return true
	case "bytes.Compare":
		used()
		g.setVal(v, g.specApp("bytes_cmp", st, arg(0), arg(1)))
		return true
	case "bytes.HasPrefix":
		used()
		g.setVal(v, g.specApp("has_prefix", st, arg(0), arg(1)))
		return true
	case "bytes.Contains":
		used()
		g.setVal(v, g.specApp("bytes_contains", st, arg(0), arg(1)))
		return true
	case "strings.HasSuffix":
		used()
		g.setVal(v, g.specApp("has_suffix", st, arg(0), arg(1)))
		return true
	case "strings.TrimSuffix":
		used()
		x, suf := arg(0), arg(1)
		has := g.define(v.Name()+".has", SBool, g.specApp("has_suffix", st, x, suf))
		r := g.havocVal(v)
		g.assume(app("=>", not(has), app("=", r.S, x.S)))
		g.assume(app("=>", has, and(app("=", app("slen", r.S), app("-", app("slen", x.S), app("slen", suf.S))),
			fmt.Sprintf("(forall ((i!q Int)) (! (=> (and (<= 0 i!q) (< i!q (slen %s))) (= (select (sarr %s) i!q) (select (sarr %s) i!q))) :pattern ((select (sarr %s) i!q))))", r.S, r.S, x.S, r.S))))
		return true
	case "strings.HasPrefix":
		used()
		g.setVal(v, g.specApp("has_prefix", st, arg(0), arg(1)))
		return true
	case "(encoding/binary.bigEndian).Uint64":
		used()
		b := arg(1)
		g.safety("bounds", "binary.BigEndian.Uint64 needs 8 bytes", in.Pos(), reach, app(">=", app("s_len", b.S), "8"))
		arr, off, _ := g.bytesTriple(b, st)
		g.setVal(v, app("be64", arr, off))
		return true
	case "(encoding/binary.bigEndian).PutUint64":
		used()
		b := arg(1)
		x := arg(2)
		g.safety("bounds", "binary.BigEndian.PutUint64 needs 8 bytes", in.Pos(), reach, app(">=", app("s_len", b.S), "8"))
		hso := g.elemHeapSort(SBV8)
		h := g.stGet(st, "E.uint8", hso)
		arr := app("select", h, app("s_obj", b.S))
		for j := 0; j < 8; j++ {
			arr = app("store", arr, app("+", app("s_off", b.S), fmt.Sprint(j)), app(fmt.Sprintf("(_ extract %d %d)", 63-8*j, 56-8*j), x.S))
		}
		g.recordWrite("E.uint8", c.Args[1])
		g.stSet(st, "E.uint8", hso, app("store", h, app("s_obj", b.S), arr))
		return true
	case "github.com/pkg/errors.Wrapf", "github.com/pkg/errors.Wrap", "github.com/pkg/errors.WithStack", "github.com/pkg/errors.WithMessage":
		used()
		g.needErrIs()
		e := arg(0)
		a := g.stGet(st, "alloc", SMath)
		id := g.define(v.Name()+".err", SMath, app("+", a, "1"))
		g.stSet(st, "alloc", SMath, id)
		// nil stays nil; otherwise a fresh wrapper whose chain continues with the wrapped error
		r := g.setVal(v, app("ite", app("=", e.S, "inil"), "inil", app("ibox", fmt.Sprint(tagWrapErr), id)))
		g.assume(fmt.Sprintf("(forall ((t!q Iface)) (! (=> (not (= %s inil)) (= (err_is %s t!q) (or (= %s t!q) (err_is %s t!q)))) :pattern ((err_is %s t!q))))", e.S, r.S, r.S, e.S, r.S))
		return true
	case "errors.Is", "github.com/pkg/errors.Is":
		used()
		g.needErrIs()
		g.setVal(v, app("err_is", arg(0).S, arg(1).S))
		return true
	case "sync/atomic.AddUint64", "sync/atomic.AddInt64":
		used()
		lv := g.resolveAddr(c.Args[0], st)
		if lv.kind == lvBad {
			return false
		}
		old := g.lvLoad(lv, st)
		var nv string
		if lv.so.K == KBV {
			nv = app("bvadd", old, arg(1).S)
		} else {
			nv = app("wrap64", app("+", old, arg(1).S))
		}
		nvn := g.define(v.Name()+".new", lv.so, nv)
		g.atomicStep(lv, st, old, nvn, in, reach)
		g.lvStore(lv, st, nvn)
		g.setVal(v, nvn)
		return true
	case "sync/atomic.LoadUint64", "sync/atomic.LoadInt64", "sync/atomic.LoadInt32", "sync/atomic.LoadUint32":
		used()
		lv := g.resolveAddr(c.Args[0], st)
		if lv.kind == lvBad {
			return false
		}
		// another thread may have advanced the location since our last access: apply the
		// rely (two-state guarantee) if one is declared, else havoc
		g.atomicRely(lv, st)
		t := g.setVal(v, g.lvLoad(lv, st))
		g.assumeTypeInv(t, st)
		return true
	case "sync/atomic.StoreUint64", "sync/atomic.StoreInt64", "sync/atomic.StoreInt32", "sync/atomic.StoreUint32":
		used()
		lv := g.resolveAddr(c.Args[0], st)
		if lv.kind == lvBad {
			return false
		}
		g.atomicRely(lv, st)
		g.atomicStep(lv, st, g.lvLoad(lv, st), arg(1).S, in, reach)
		g.lvStore(lv, st, arg(1).S)
		return true
	case "sync/atomic.CompareAndSwapUint64", "sync/atomic.CompareAndSwapInt64":
		used()
		lv := g.resolveAddr(c.Args[0], st)
		if lv.kind == lvBad {
			return false
		}
		g.atomicRely(lv, st)
		old := g.lvLoad(lv, st)
		ok := g.define(v.Name()+".swapped", SBool, app("=", old, arg(1).S))
		nv := g.define(v.Name()+".new", lv.so, app("ite", ok, arg(2).S, old))
		g.atomicStep(lv, st, old, nv, in, reach)
		g.lvStore(lv, st, nv)
		g.setVal(v, ok)
		return true
	case "(*sync/atomic.Value).Load":
		used()
		lv := g.resolveAddr(c.Args[0], st)
		if lv.kind == lvBad || lv.so.K != KData {
			return false
		}
		g.atomicRely(lv, st)
		t := g.setVal(v, app(lv.so.Fields[0].Acc, g.lvLoad(lv, st)))
		_ = t
		return true
	case "(*sync/atomic.Value).Store":
		used()
		lv := g.resolveAddr(c.Args[0], st)
		if lv.kind == lvBad || lv.so.K != KData {
			return false
		}
		g.safety("atomicvalue", "atomic.Value.Store of a nil interface panics", in.Pos(), reach, not(app("=", arg(1).S, "inil")))
		nv := app(lv.so.Ctor, arg(1).S)
		g.atomicStep(lv, st, g.lvLoad(lv, st), nv, in, reach)
		g.lvStore(lv, st, nv)
		return true
	case "(*sync.Mutex).Lock", "(*sync.RWMutex).Lock", "(*sync.RWMutex).RLock":
		used()
		g.lockOp(c.Args[0], strings.HasSuffix(name, "RLock"), true, st, reach, in)
		return true
	case "(*sync.Mutex).Unlock", "(*sync.RWMutex).Unlock", "(*sync.RWMutex).RUnlock":
		used()
		g.lockOp(c.Args[0], strings.HasSuffix(name, "RUnlock"), false, st, reach, in)
		return true
	case "sort.Slice":
		used()
		return g.sortSlice(c, in, st, reach)
	case "sort.Search":
		used()
		return g.sortSearch(v, c, in, st, reach)
	case "math.MaxUint64":
		return false
	}
	return false
}

// atomicStep checks the declared two-state guarantee of an atomic location:
// a contract-file line  "//@ guarantee <Type.field> <expr over old_v and new_v>".
func (g *Gen) atomicStep(lv LV, st State, old, nv string, in ssa.Instruction, reach string) {
	if g.stepVals == nil {
		g.stepVals = map[string][2]T{}
	}
	oldN := g.define("step.old", lv.so, old)
	g.stepVals[lv.heap] = [2]T{{S: oldN, So: lv.so}, {S: nv, So: lv.so}}
	if rg, ok := g.prog.ranges[lv.heap]; ok {
		env := g.envAt(st, st, g.pkg, map[string]T{"v": {S: oldN, So: lv.so}})
		t := env.compileBool(rg.Expr)
		if !g.reportSpecErrors(env, rg) {
			g.assume(t.S)
		}
	}
	gu, ok := g.prog.guarantees[lv.heap]
	if !ok {
		return
	}
	vars := map[string]T{"old_v": {S: old, So: lv.so}, "new_v": {S: nv, So: lv.so}}
	env := g.envAt(st, st, g.pkg, vars)
	env.inGoal = true
	t := env.compileBool(gu.Expr)
	g.reportSpecErrors(env, gu)
	g.newObligation("guarantee", strings.TrimPrefix(lv.heap, "F."), "atomic step preserves: "+gu.Text, g.where(in.Pos()), app("=>", reach, t.S))
}

// atomicRely models interference: between two of our accesses other threads may have
// performed any number of steps satisfying the guarantee.
func (g *Gen) atomicRely(lv LV, st State) {
	gu, ok := g.prog.guarantees[lv.heap]
	if !ok {
		return
	}
	if lv.kind != lvField && lv.kind != lvElem {
		return
	}
	old := g.lvLoad(lv, st)
	fresh := g.fresh("interf", lv.so)
	vars := map[string]T{"old_v": {S: old, So: lv.so}, "new_v": {S: fresh, So: lv.so}}
	env := g.envAt(st, st, g.pkg, vars)
	t := env.compileBool(gu.Expr)
	if !g.reportSpecErrors(env, gu) {
		g.assume(t.S)
	}
	g.lvStore(lv, st, fresh)
}

func (g *Gen) lockOp(addr ssa.Value, read bool, acquire bool, st State, reach string, in ssa.Instruction) {
	// lock identity: the object that embeds / owns the mutex
	owner, ownerT := g.lockOwner(addr)
	if owner == "" {
		return
	}
	mon := g.prog.monitors[typeKey(ownerT)]
	hso := &Sort{K: KRaw, Name: "(Array Int Int)"}
	held := g.stGet(st, "L.held", hso)
	cur := app("select", held, owner)
	selfT := T{S: owner, So: SRef, GoT: types.NewPointer(ownerT)}
	if acquire {
		mode := "2"
		if read {
			mode = "1"
		}
		g.stSet(st, "L.held", hso, app("store", held, owner, mode))
		if mon != nil {
			// other threads may have changed the guarded state: havoc it, assume the invariant
			for _, f := range mon.Fields {
				elems := strings.HasSuffix(f, "[]")
				f = strings.TrimSuffix(f, "[]")
				lv := g.fieldLV(ownerT, f, owner)
				if lv.kind == lvBad {
					g.errorf("monitor %s: no field %s", mon.Type, f)
					continue
				}
				if elems {
					// the elements of the slice stored in the field
					cur := g.lvLoad(lv, st)
					el, elT := g.elemOf(lv.goT)
					if el != nil {
						hn := g.elemHeapName(elT)
						ehso := g.elemHeapSort(el)
						h := g.stGet(st, hn, ehso)
						fresh := g.fresh("mon."+f+".elems", &Sort{K: KRaw, Name: "(Array Int " + el.Name + ")"})
						g.recordWrite(hn, nil)
						g.stSet(st, hn, ehso, app("store", h, app("s_obj", cur), fresh))
					}
					continue
				}
				fresh := g.fresh("mon."+f, lv.so)
				g.lvStore(lv, st, fresh)
				g.interfered[lv.heap] = true
				g.assumeTypeInv(T{S: fresh, So: lv.so, GoT: lv.goT}, st)
			}
			for _, cl := range mon.Inv {
				env := g.envAt(st, st, g.prog.typesPkg(mon.Pkg), map[string]T{"self": selfT})
				t := env.compileBool(cl.Expr)
				if g.reportSpecErrors(env, cl) {
					continue
				}
				g.assume(app("=>", reach, t.S))
			}
		}
		if mon != nil {
			for _, cl := range mon.Assume {
				env := g.envAt(st, st, g.prog.typesPkg(mon.Pkg), map[string]T{"self": selfT})
				t := env.compileBool(cl.Expr)
				if g.reportSpecErrors(env, cl) {
					continue
				}
				g.assume(app("=>", reach, t.S))
			}
		}
		g.lockSt = st.clone()
		if g.ct != nil {
			for _, cl := range g.ct.LockedAssume {
				env := g.envAt(st, g.entryState(), g.pkg, g.paramEnv)
				t := env.compileBool(cl.Expr)
				if g.reportSpecErrors(env, cl) {
					continue
				}
				g.assume(app("=>", reach, t.S))
				g.assumed["assumed at lock acquisition in "+funcDisplayName(g.fn)+": "+cl.Text] = true
			}
		}
		return
	}
	want := "2"
	if read {
		want = "1"
	}
	g.safety("lock", "unlock of a lock held in the matching mode", in.Pos(), reach, app("=", cur, want))
	if mon != nil && !read {
		for i, cl := range mon.Inv {
			env := g.envAt(st, st, g.prog.typesPkg(mon.Pkg), map[string]T{"self": selfT})
			env.inGoal = true
			t := env.compileBool(cl.Expr)
			g.reportSpecErrors(env, cl)
			label := cl.Label
			if label == "" {
				label = fmt.Sprint(i)
			}
			g.newObligation("monitor", label, "monitor invariant re-established at unlock: "+cl.Text, g.where(in.Pos()), app("=>", reach, t.S))
		}
	}
	g.stSet(st, "L.held", hso, app("store", held, owner, "0"))
}

func (g *Gen) fieldLV(structT types.Type, field string, obj string) LV {
	stT := structT.Underlying().(*types.Struct)
	for i := 0; i < stT.NumFields(); i++ {
		f := stT.Field(i)
		if f.Name() == field {
			fso := g.te.sortOf(f.Type())
			return LV{kind: lvField, heap: g.fieldHeapName(structT, field), hso: &Sort{K: KRaw, Name: "(Array Int " + fso.Name + ")"}, obj: obj, vso: fso, so: fso, goT: f.Type()}
		}
	}
	return LV{kind: lvBad}
}

// lockOwner: for "&x.mu" or "&x.RWMutex" returns x and its struct type.
func (g *Gen) lockOwner(addr ssa.Value) (string, types.Type) {
	if fa, ok := addr.(*ssa.FieldAddr); ok {
		pt := fa.X.Type().Underlying().(*types.Pointer)
		return g.val(fa.X).S, pt.Elem()
	}
	return "", nil
}

// sortSearch: sort.Search(n, f) with a closure f. The result i satisfies 0 <= i <= n; for the
// predicate contract see the closure's own contract (ensures on result). We assume the
// documented meaning: f(j) is false for j < i and true for i <= j < n, provided f is
// monotone on [0,n) -- monotonicity is a proof obligation stated on the closure contract
// as the clause labelled "monotone".
func (g *Gen) sortSearch(v ssa.Value, c *ssa.CallCommon, in ssa.Instruction, st State, reach string) bool {
	n := g.val(c.Args[0])
	mc, ok := c.Args[1].(*ssa.MakeClosure)
	if !ok {
		return false
	}
	fn := mc.Fn.(*ssa.Function)
	ct := g.cs.Funcs[g.prog.contractKeyOfFunc(fn)]
	r := g.havocVal(v)
	g.assume(and(app("<=", "0", r.S), app("<=", r.S, app("imax", n.S, "0"))))
	if ct == nil {
		g.note("sort.Search closure %s has no contract: only 0 <= result <= n assumed", fn.Name())
		return true
	}
	// closure contract: "ensures result == P(i)" where free variables are bound to the captured values
	vars := map[string]T{}
	for i, fv := range fn.FreeVars {
		b := g.val(mc.Bindings[i])
		// captured by reference (pointer to cell) or by value
		if a, ok := mc.Bindings[i].(*ssa.Alloc); ok && g.isCellAlloc(a) {
			lv := g.resolveAddr(a, st)
			vars[fv.Name()] = T{S: g.lvLoad(lv, st), So: lv.so, GoT: lv.goT}
		} else {
			vars[fv.Name()] = b
		}
	}
	stale := false
	pred := func(idx string) string {
		vs := map[string]T{}
		for k, t := range vars {
			vs[k] = t
		}
		vs[fn.Params[0].Name()] = T{S: idx, So: SInt}
		vs["result"] = T{S: "true", So: SBool}
		var out []string
		for _, cl := range ct.Ensures {
			if cl.Label != "pred" {
				continue
			}
			env := g.envAt(st, st, g.pkg, vs)
			t := env.compileBool(cl.Expr)
			if g.reportSpecErrors(env, cl) {
				stale = true
			}
			out = append(out, t.S)
		}
		return and(out...)
	}
	if pred("0"); stale {
		// the closure's contract no longer matches its captured variables: nothing is known
		// about the search result beyond its range
		return true
	}
	// obligation: monotone on [0,n)
	g.newObligation("pre", "sort.Search.monotone", "sort.Search predicate is monotone on [0,n)", g.where(in.Pos()),
		app("=>", reach, fmt.Sprintf("(forall ((a!q Int) (b!q Int)) (=> (and (<= 0 a!q) (<= a!q b!q) (< b!q %s) %s) %s))", n.S, pred("a!q"), pred("b!q"))))
	g.assume(app("=>", reach, fmt.Sprintf("(forall ((j!q Int)) (=> (and (<= 0 j!q) (< j!q %s)) %s))", r.S, not(pred("j!q")))))
	g.assume(app("=>", reach, fmt.Sprintf("(forall ((j!q Int)) (=> (and (<= %s j!q) (< j!q %s)) %s))", r.S, n.S, pred("j!q"))))
	return true
}

// sortSlice: sort.Slice(x, less) permutes the elements of x in place. Assumed: the length is
// unchanged, the contents of the slice's window are havocked (a permutation of the old ones:
// stated by the per-call-site spec predicate "sorted_perm_<elem>" when the spec library has
// one), every other object is untouched.
func (g *Gen) sortSlice(c *ssa.CallCommon, in ssa.Instruction, st State, reach string) bool {
	mi, ok := c.Args[0].(*ssa.MakeInterface)
	if !ok {
		return false
	}
	x := g.val(mi.X)
	el, elT := g.elemOf(mi.X.Type())
	if el == nil || x.So.K != KSlice {
		return false
	}
	hn := g.elemHeapName(elT)
	hso := g.elemHeapSort(el)
	h := g.stGet(st, hn, hso)
	arrSort := &Sort{K: KRaw, Name: "(Array Int " + el.Name + ")"}
	na := g.fresh("sorted", arrSort)
	old := app("select", h, app("s_obj", x.S))
	pid := g.nfresh
	g.emit(fmt.Sprintf("(declare-fun perm!%d (Int) Int)", pid))
	// outside the window nothing changes
	g.assume(fmt.Sprintf("(forall ((j!q Int)) (! (=> (or (< j!q (s_off %s)) (>= j!q (+ (s_off %s) (s_len %s)))) (= (select %s j!q) (select %s j!q))) :pattern ((select %s j!q))))", x.S, x.S, x.S, na, old, na))
	// permutation: every new element is an old element of the window
	g.assume(fmt.Sprintf("(forall ((j!q Int)) (! (=> (and (<= (s_off %s) j!q) (< j!q (+ (s_off %s) (s_len %s)))) (and (<= (s_off %s) (perm!%d j!q)) (< (perm!%d j!q) (+ (s_off %s) (s_len %s))) (= (select %s j!q) (select %s (perm!%d j!q))))) :pattern ((select %s j!q))))",
		x.S, x.S, x.S, x.S, pid, pid, x.S, x.S, na, old, pid, na))
	g.recordWrite(hn, mi.X)
	g.stSet(st, hn, hso, app("store", h, app("s_obj", x.S), na))
	g.sortedFacts(c, x, na, old, el, elT, st, reach)
	return true
}

// sortedFacts: the closure's contract clause labelled "less" (over i, j and captured variables)
// gives the order; after the call no adjacent pair is out of order.
func (g *Gen) sortedFacts(c *ssa.CallCommon, x T, na, old string, el *Sort, elT types.Type, st State, reach string) {
	mc, ok := c.Args[1].(*ssa.MakeClosure)
	if !ok {
		return
	}
	fn := mc.Fn.(*ssa.Function)
	ct := g.cs.Funcs[g.prog.contractKeyOfFunc(fn)]
	if ct == nil {
		g.note("sort.Slice comparison %s has no contract: only 'permutation' is assumed", fn.Name())
		return
	}
	vars := map[string]T{}
	g.closureVars(&ssa.CallCommon{Value: mc}, st, vars)
	staleLess := false
	less := func(i, j string) string {
		vs := map[string]T{}
		for k, t := range vars {
			vs[k] = t
		}
		vs[fn.Params[0].Name()] = T{S: i, So: SInt}
		vs[fn.Params[1].Name()] = T{S: j, So: SInt}
		var out []string
		for _, cl := range ct.Ensures {
			if cl.Label != "less" {
				continue
			}
			env := g.envAt(st, st, g.pkg, vs)
			t := env.compileBool(cl.Expr)
			if g.reportSpecErrors(env, cl) {
				staleLess = true
			}
			out = append(out, t.S)
		}
		return and(out...)
	}
	if less("0", "1"); staleLess {
		return
	}
	g.assume(app("=>", reach, fmt.Sprintf("(forall ((a!q Int) (b!q Int)) (=> (and (<= 0 a!q) (< a!q b!q) (< b!q (s_len %s))) (not %s)))", x.S, less("b!q", "a!q"))))
}
