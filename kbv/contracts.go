package main

import (
	"fmt"
	"go/ast"
	"go/parser"
	"os"
	"path/filepath"
	"regexp"
	"sort"
	"strings"
)

type Clause struct {
	Label string
	Text  string
	Expr  ast.Expr
	Where string
	Free  bool // "assume"-style clause (trusted, listed in evidence)
	Props []string // loop clauses: only used when checking one of these properties (empty: always)
}

func (c Clause) active(prop string) bool {
	if len(c.Props) == 0 {
		return true
	}
	for _, p := range c.Props {
		if p == prop {
			return true
		}
	}
	return false
}

type Contract struct {
	Key           string // pkgpath + "." + relname
	Pkg           string
	Name          string
	Params        []string
	Results       []string
	Requires      []Clause
	Ensures       []Clause
	Modifies      []string
	NotSpawned    string // structural: never the callee of a go statement
	ChanOpsUnder  *Clause // lock object: every channel send in the function needs its lock held, every close its write lock
	LoopInv       map[int][]Clause
	StepLemma     map[int][]Clause
	LoopMod       map[int][]string
	Assumed       bool // contract is trusted, body not verified
	MayPanic      bool
	LockedAssume  []Clause // assumed right after the function acquires its lock (trusted, listed)
	CallersOnly   []string // the only functions allowed to call this one (call-graph obligation)
	Reveal        []string // opaque spec definitions this function's proof may unfold
	NoWrap        bool     // signed arithmetic: prove absence of overflow, then reason mathematically
	NoSafety      bool     // do not generate the zero-annotation safety obligations for this function
	NoSafetyProps []string
	Uncalled      bool // the function must have no caller in the loaded program
	GhostOnly     bool // applied in addition to the built-in model of the callee (ghost effects only)
	Pure          bool // no heap effect at all (modifies nothing)
	SameAs        string
	Props         []string // properties this function's obligations count for
	Where         string
	Lets          [][2]string
}

type GhostVar struct {
	Name string
	Sort string
	Pkg  string
	// Scratch ghosts carry a fact from one call to the code right after it ("the value the last
	// Get returned"): every call havocs them unless its contract says otherwise, and they are
	// exempt from frame obligations.
	Scratch bool
}

type GlobalInv struct {
	Pkg    string
	Clause Clause
}

type GuaranteeDecl struct {
	Pkg        string
	Designator string
	Clause     Clause
}

type MonitorDecl struct {
	Pkg    string
	Type   string
	Fields []string
	Inv    []Clause
	Assume []Clause
}

type PredDecl struct {
	Name   string
	Pkg    string
	Params []string
	Body   Clause
}

type AtomicOnlyDecl struct {
	Pkg   string
	Field string // Type.field
	Props []string
	Where string
}

type Contracts struct {
	AtomicOnly []AtomicOnlyDecl
	Preds      map[string]*PredDecl
	Ranges     []GuaranteeDecl // assumed ranges of atomic locations
	Funcs      map[string]*Contract
	Ghosts     map[string]*GhostVar
	Globals    []GlobalInv
	Trusted    []string // free-form trusted notes
	Order      []string
	Guarantees []GuaranteeDecl
	Monitors   []*MonitorDecl
}

func newContracts() *Contracts {
	return &Contracts{Funcs: map[string]*Contract{}, Ghosts: map[string]*GhostVar{}, Preds: map[string]*PredDecl{}}
}

var reLabel = regexp.MustCompile(`^\[([A-Za-z0-9_.\-]+)\]\s*`)
var reFunc = regexp.MustCompile(`^func\s+(\S+?)(\(([^)]*)\))?(\s*\(([^)]*)\))?\s*$`)

// preprocess turns "a ==> b" (right assoc, lowest precedence, at paren depth 0 of
// its enclosing call argument) into implies(a, b).
func preprocessImplies(s string) string {
	// find top-level (depth 0) "==>" scanning left to right
	depth := 0
	for i := 0; i < len(s)-2; i++ {
		switch s[i] {
		case '(', '[':
			depth++
		case ')', ']':
			depth--
		case '"':
			j := i + 1
			for j < len(s) && s[j] != '"' {
				if s[j] == '\\' {
					j++
				}
				j++
			}
			i = j
			continue
		case '\'':
			j := i + 1
			for j < len(s) && s[j] != '\'' {
				if s[j] == '\\' {
					j++
				}
				j++
			}
			i = j
			continue
		}
		if depth == 0 && strings.HasPrefix(s[i:], "==>") {
			return "implies(" + preprocessImplies(s[:i]) + ", " + preprocessImplies(s[i+3:]) + ")"
		}
	}
	// recurse into parenthesised groups / call args split by top-level commas
	var out strings.Builder
	i := 0
	for i < len(s) {
		c := s[i]
		if c == '(' || c == '[' {
			open, closeC := c, byte(')')
			if c == '[' {
				closeC = ']'
			}
			d := 1
			j := i + 1
			for j < len(s) && d > 0 {
				if s[j] == open {
					d++
				} else if s[j] == closeC {
					d--
				} else if s[j] == '"' {
					j++
					for j < len(s) && s[j] != '"' {
						if s[j] == '\\' {
							j++
						}
						j++
					}
				}
				j++
			}
			inner := s[i+1 : j-1]
			// split by top-level commas
			parts := splitTop(inner)
			for k := range parts {
				parts[k] = preprocessImplies(parts[k])
			}
			out.WriteByte(open)
			out.WriteString(strings.Join(parts, ","))
			out.WriteByte(closeC)
			i = j
			continue
		}
		out.WriteByte(c)
		i++
	}
	return out.String()
}

func splitTop(s string) []string {
	var parts []string
	depth := 0
	last := 0
	for i := 0; i < len(s); i++ {
		switch s[i] {
		case '(', '[', '{':
			depth++
		case ')', ']', '}':
			depth--
		case '"':
			i++
			for i < len(s) && s[i] != '"' {
				if s[i] == '\\' {
					i++
				}
				i++
			}
		case '\'':
			i++
			for i < len(s) && s[i] != '\'' {
				if s[i] == '\\' {
					i++
				}
				i++
			}
		case ',':
			if depth == 0 {
				parts = append(parts, s[last:i])
				last = i + 1
			}
		}
	}
	parts = append(parts, s[last:])
	return parts
}

func parseClause(text, where string) (Clause, error) {
	c := Clause{Where: where}
	text = strings.TrimSpace(text)
	if m := reLabel.FindStringSubmatch(text); m != nil {
		c.Label = m[1]
		text = text[len(m[0]):]
	}
	c.Text = text
	e, err := parser.ParseExpr(preprocessImplies(text))
	if err != nil {
		return c, fmt.Errorf("%s: cannot parse %q: %v", where, text, err)
	}
	c.Expr = e
	return c, nil
}

func splitNames(s string) []string {
	var out []string
	for _, p := range strings.Split(s, ",") {
		p = strings.TrimSpace(p)
		if p != "" {
			out = append(out, p)
		}
	}
	return out
}

// parseContractLines parses the //@ lines of one file. pkgPath is the package the
// file belongs to ("" for the std/external file, where names are fully qualified).
func (cs *Contracts) parseContractLines(lines []string, file string, pkgPath string) error {
	var cur *Contract
	var lastClause *Clause
	var lastKind string
	var lastLoop int
	var lastPred *PredDecl
	flush := func() error {
		if lastClause == nil {
			return nil
		}
		cl, err := parseClause(lastClause.Text, lastClause.Where)
		if err != nil {
			return err
		}
		cl.Free = lastClause.Free
		cl.Props = lastClause.Props
		switch lastKind {
		case "requires":
			cur.Requires = append(cur.Requires, cl)
		case "ensures":
			cur.Ensures = append(cur.Ensures, cl)
		case "invariant":
			cur.LoopInv[lastLoop] = append(cur.LoopInv[lastLoop], cl)
		case "steplemma":
			if cur.StepLemma == nil {
				cur.StepLemma = map[int][]Clause{}
			}
			cur.StepLemma[lastLoop] = append(cur.StepLemma[lastLoop], cl)
		case "global":
			cs.Globals = append(cs.Globals, GlobalInv{Pkg: pkgPath, Clause: cl})
		case "pred":
			lastPred.Body = cl
			cs.Preds[lastPred.Name] = lastPred
		}
		lastClause = nil
		return nil
	}
	for ln, raw := range lines {
		where := fmt.Sprintf("%s:%d", filepath.Base(file), ln+1)
		line := strings.TrimSpace(raw)
		if line == "" || strings.HasPrefix(line, "#") {
			continue
		}
		if strings.HasPrefix(line, "|") {
			if lastClause == nil {
				return fmt.Errorf("%s: continuation without clause", where)
			}
			lastClause.Text += " " + strings.TrimSpace(line[1:])
			continue
		}
		if err := flush(); err != nil {
			return err
		}
		word, rest := line, ""
		if i := strings.IndexAny(line, " \t"); i >= 0 {
			word, rest = line[:i], strings.TrimSpace(line[i+1:])
		}
		var wprops []string
		if k := strings.Index(word, "@"); k > 0 {
			// "ensures@C03 [label] ..." : a postcondition proved only when checking these properties
			wprops = strings.Split(word[k+1:], ",")
			word = word[:k]
		}
		switch word {
		case "func":
			m := reFunc.FindStringSubmatch(line)
			if m == nil {
				return fmt.Errorf("%s: bad func line %q", where, line)
			}
			name := m[1]
			key := name
			if strings.HasPrefix(name, "@") {
				name = name[1:]
				key = name // absolute key: a function of another (external) package
			} else if pkgPath != "" {
				key = pkgPath + "." + name
			}
			cur = &Contract{Key: key, Pkg: pkgPath, Name: name, LoopInv: map[int][]Clause{}, LoopMod: map[int][]string{}, Where: where}
			if m[2] != "" {
				cur.Params = splitNames(m[3])
			}
			if m[4] != "" {
				cur.Results = splitNames(m[5])
			}
			if _, dup := cs.Funcs[key]; dup {
				return fmt.Errorf("%s: duplicate contract for %s", where, key)
			}
			cs.Funcs[key] = cur
			cs.Order = append(cs.Order, key)
		case "ghost":
			f := strings.SplitN(rest, " ", 2)
			if len(f) != 2 {
				return fmt.Errorf("%s: bad ghost decl", where)
			}
			gv := &GhostVar{Name: f[0], Sort: strings.TrimSpace(f[1]), Pkg: pkgPath}
			if strings.HasSuffix(gv.Sort, " scratch") {
				gv.Scratch = true
				gv.Sort = strings.TrimSpace(strings.TrimSuffix(gv.Sort, " scratch"))
			}
			cs.Ghosts[f[0]] = gv
		case "global":
			lastClause = &Clause{Text: rest, Where: where}
			lastKind = "global"
		case "trusted":
			cs.Trusted = append(cs.Trusted, rest)
		case "guarantee":
			f := strings.SplitN(rest, " ", 2)
			if len(f) != 2 {
				return fmt.Errorf("%s: bad guarantee", where)
			}
			cl, err := parseClause(f[1], where)
			if err != nil {
				return err
			}
			cs.Guarantees = append(cs.Guarantees, GuaranteeDecl{Pkg: pkgPath, Designator: f[0], Clause: cl})
		case "pred":
			// pred name(a, b) = expr
			m := regexp.MustCompile(`^([A-Za-z_][A-Za-z0-9_]*)\(([^)]*)\)\s*=\s*(.*)$`).FindStringSubmatch(rest)
			if m == nil {
				return fmt.Errorf("%s: bad pred", where)
			}
			lastClause = &Clause{Text: m[3], Where: where}
			lastKind = "pred"
			lastPred = &PredDecl{Name: m[1], Pkg: pkgPath, Params: splitNames(m[2])}
		case "atomic_only":
			// atomic_only Type.field props...
			f := strings.Fields(rest)
			if len(f) < 2 {
				return fmt.Errorf("%s: bad atomic_only", where)
			}
			cs.AtomicOnly = append(cs.AtomicOnly, AtomicOnlyDecl{Pkg: pkgPath, Field: f[0], Props: f[1:], Where: where})
		case "range_assumed":
			f := strings.SplitN(rest, " ", 2)
			if len(f) != 2 {
				return fmt.Errorf("%s: bad range_assumed", where)
			}
			cl, err := parseClause(f[1], where)
			if err != nil {
				return err
			}
			cs.Ranges = append(cs.Ranges, GuaranteeDecl{Pkg: pkgPath, Designator: f[0], Clause: cl})
			cs.Trusted = append(cs.Trusted, "assumed range of "+f[0]+": "+f[1])
		case "monitor":
			f := strings.Fields(rest)
			if len(f) < 2 {
				return fmt.Errorf("%s: bad monitor decl", where)
			}
			cs.Monitors = append(cs.Monitors, &MonitorDecl{Pkg: pkgPath, Type: f[0], Fields: f[1:]})
		case "monitor_assume":
			f := strings.SplitN(rest, " ", 2)
			if len(f) != 2 {
				return fmt.Errorf("%s: bad monitor_assume", where)
			}
			cl, err := parseClause(f[1], where)
			if err != nil {
				return err
			}
			for _, m := range cs.Monitors {
				if m.Pkg == pkgPath && m.Type == f[0] {
					m.Assume = append(m.Assume, cl)
				}
			}
			cs.Trusted = append(cs.Trusted, "assumed at lock acquisition of "+f[0]+": "+f[1])
		case "monitor_inv":
			f := strings.SplitN(rest, " ", 2)
			if len(f) != 2 {
				return fmt.Errorf("%s: bad monitor_inv", where)
			}
			cl, err := parseClause(f[1], where)
			if err != nil {
				return err
			}
			found := false
			for _, m := range cs.Monitors {
				if m.Pkg == pkgPath && m.Type == f[0] {
					m.Inv = append(m.Inv, cl)
					found = true
				}
			}
			if !found {
				return fmt.Errorf("%s: monitor_inv for undeclared monitor %s", where, f[0])
			}
		case "requires", "ensures":
			if cur == nil {
				return fmt.Errorf("%s: clause outside func", where)
			}
			lastClause = &Clause{Text: rest, Where: where, Props: wprops}
			lastKind = word
		case "assume_ensures":
			if cur == nil {
				return fmt.Errorf("%s: clause outside func", where)
			}
			lastClause = &Clause{Text: rest, Where: where, Free: true}
			lastKind = "ensures"
		case "loop":
			if cur == nil {
				return fmt.Errorf("%s: clause outside func", where)
			}
			f := strings.SplitN(rest, " ", 3)
			if len(f) < 3 {
				return fmt.Errorf("%s: bad loop clause", where)
			}
			var n int
			if _, err := fmt.Sscanf(f[0], "%d", &n); err != nil {
				return fmt.Errorf("%s: bad loop ordinal", where)
			}
			var lprops []string
			if k := strings.Index(f[1], "@"); k >= 0 {
				// "loop 0 invariant@C03,C08 [label] ..." restricts a loop clause to some properties
				lprops = strings.Split(f[1][k+1:], ",")
				f[1] = f[1][:k]
			}
			switch f[1] {
			case "invariant":
				lastClause = &Clause{Text: f[2], Where: where}
				lastKind = "invariant"
				lastLoop = n
			case "step_lemma":
				// a two-state fact proved at every back edge before the invariants (head(e) is e at the loop head)
				lastClause = &Clause{Text: f[2], Where: where}
				lastKind = "steplemma"
				lastLoop = n
			case "assume":
				// a definitional axiom assumed at the loop head (never proved; listed in the evidence)
				lastClause = &Clause{Text: f[2], Where: where, Free: true}
				lastKind = "invariant"
				lastLoop = n
			case "modifies":
				cur.LoopMod[n] = append(cur.LoopMod[n], strings.Fields(f[2])...)
			default:
				return fmt.Errorf("%s: bad loop clause kind %q", where, f[1])
			}
			if f[1] != "modifies" && lastClause != nil {
				lastClause.Props = lprops
			}
		case "modifies":
			if cur == nil {
				return fmt.Errorf("%s: clause outside func", where)
			}
			cur.Modifies = append(cur.Modifies, strings.Fields(rest)...)
		case "let":
			f := strings.SplitN(rest, "=", 2)
			if cur == nil || len(f) != 2 {
				return fmt.Errorf("%s: bad let", where)
			}
			cur.Lets = append(cur.Lets, [2]string{strings.TrimSpace(f[0]), strings.TrimSpace(f[1])})
		case "assumed":
			cur.Assumed = true
		case "may_panic":
			cur.MayPanic = true
		case "uncalled":
			cur.Uncalled = true
		case "chan_ops_under":
			// every send on a channel in this function happens with this object's lock held (in
			// either mode), every close of a channel with its write lock held
			cl, err := parseClause(rest, where)
			if err != nil {
				return err
			}
			cur.ChanOpsUnder = &cl
		case "not_spawned":
			// structural: no go statement of the program starts this function (with the reason)
			cur.NotSpawned = strings.TrimSpace(rest)
			if cur.NotSpawned == "" {
				cur.NotSpawned = "must run synchronously"
			}
		case "locked_assume":
			cl, err := parseClause(rest, where)
			if err != nil {
				return err
			}
			cur.LockedAssume = append(cur.LockedAssume, cl)
		case "callers_only":
			cur.CallersOnly = append(cur.CallersOnly, strings.Fields(rest)...)
		case "reveal":
			cur.Reveal = append(cur.Reveal, strings.Fields(rest)...)
		case "nowrap":
			cur.NoWrap = true
		case "nosafety":
			// "nosafety" alone: for every property; "nosafety C18 C16": only when checking those
			cur.NoSafety = true
			cur.NoSafetyProps = append(cur.NoSafetyProps, strings.Fields(rest)...)
		case "ghost_only":
			cur.GhostOnly = true
			cur.Assumed = true
		case "pure":
			cur.Pure = true
		case "same_as":
			cur.SameAs = rest
			if pkgPath != "" && !strings.Contains(rest, "/") {
				cur.SameAs = pkgPath + "." + rest
			}
		case "props":
			cur.Props = append(cur.Props, strings.Fields(rest)...)
		default:
			return fmt.Errorf("%s: unknown directive %q", where, word)
		}
	}
	return flush()
}

// extractSpecLines returns the payload of the "//@" comment lines of a Go file.
func extractSpecLines(src string) []string {
	var out []string
	for _, l := range strings.Split(src, "\n") {
		t := strings.TrimSpace(l)
		if strings.HasPrefix(t, "//@") {
			out = append(out, strings.TrimPrefix(t, "//@"))
		} else {
			out = append(out, "")
		}
	}
	return out
}

func (cs *Contracts) loadGoFile(path, pkgPath string) error {
	b, err := os.ReadFile(path)
	if err != nil {
		return err
	}
	return cs.parseContractLines(extractSpecLines(string(b)), path, pkgPath)
}

func (cs *Contracts) loadExternalFile(path string) error {
	b, err := os.ReadFile(path)
	if err != nil {
		return err
	}
	return cs.parseContractLines(strings.Split(string(b), "\n"), path, "")
}

func (cs *Contracts) resolveSameAs() error {
	keys := make([]string, 0, len(cs.Funcs))
	for k := range cs.Funcs {
		keys = append(keys, k)
	}
	sort.Strings(keys)
	for _, k := range keys {
		c := cs.Funcs[k]
		if c.SameAs == "" {
			continue
		}
		src, ok := cs.Funcs[c.SameAs]
		if !ok {
			return fmt.Errorf("%s: same_as target %s has no contract", c.Where, c.SameAs)
		}
		c.Requires = append(append([]Clause{}, src.Requires...), c.Requires...)
		c.Ensures = append(append([]Clause{}, src.Ensures...), c.Ensures...)
		c.Modifies = append(append([]string{}, src.Modifies...), c.Modifies...)
		c.Lets = append(append([][2]string{}, src.Lets...), c.Lets...)
		if len(c.Params) == 0 {
			// positional renaming happens at use: keep the interface's names
			c.Params = src.Params
			c.Results = src.Results
		}
		if src.Pure {
			c.Pure = true
		}
	}
	return nil
}
