package main

import (
	"encoding/json"
	"flag"
	"fmt"
	"os"
	"path/filepath"
	"regexp"
	"sort"
	"strconv"
	"strings"
	"sync"
	"sync/atomic"
	"time"

	"go/types"

	"golang.org/x/tools/go/ssa"
)

type PropConfig struct {
	Packages    []string `json:"packages"`
	Lemmas      []string `json:"lemmas"`
	Imports     []string `json:"imports"` // properties whose lemma files are re-proved in the thorough tier
	Assumptions []string `json:"assumptions"`
	Explanation string   `json:"explanation"`
	Level       string   `json:"level"` // the category claimed in MANIFEST.json ("proof" or "other")
	Bounded     []string `json:"bounded"`
	Extra       []string `json:"extra"` // extra analyses: "lockset", "metrics", ...
}

type oblResult struct {
	O   *Obligation
	G   *Gen
	Res SolverResult
	Q   string
}

var verifDir = "/verif"

func main() {
	if len(os.Args) < 2 {
		fmt.Println("usage: kbv check|dump|list ...")
		os.Exit(2)
	}
	if v := os.Getenv("KBV_VERIF"); v != "" {
		verifDir = v // a snapshot of /verif (spec, props.json, known findings, templates): used for scratch runs only
	}
	switch os.Args[1] {
	case "check":
		os.Exit(cmdCheck(os.Args[2:]))
	case "dump":
		os.Exit(cmdDump(os.Args[2:]))
	default:
		fmt.Println("unknown command")
		os.Exit(2)
	}
}

func loadProps() (map[string]*PropConfig, error) {
	b, err := os.ReadFile(filepath.Join(verifDir, "props.json"))
	if err != nil {
		return nil, err
	}
	m := map[string]*PropConfig{}
	if err := json.Unmarshal(b, &m); err != nil {
		return nil, err
	}
	return m, nil
}

func cmdDump(args []string) int {
	fs := flag.NewFlagSet("dump", flag.ExitOnError)
	repo := fs.String("repo", "/repo", "repository")
	fn := fs.String("func", "", "function key substring")
	smt := fs.Bool("smt", false, "print SMT of obligations")
	fs.Parse(args)
	prog, err := loadProgram(*repo, fs.Args(), filepath.Join(verifDir, "spec"))
	if err != nil {
		fmt.Println("load error:", err)
		return 2
	}
	var keys []string
	for k := range prog.funcs {
		if strings.Contains(k, *fn) {
			keys = append(keys, k)
		}
	}
	sort.Strings(keys)
	for _, k := range keys {
		f := prog.funcs[k]
		fmt.Println("==== ", k)
		f.WriteTo(os.Stdout)
		g := newGen(prog, f, prog.cs.Funcs[k])
		if f.Blocks == nil {
			continue
		}
		g.run()
		{
			var ms []string
			for k := range g.inferMods(f, map[*ssa.Function]bool{}) {
				ms = append(ms, k)
			}
			sort.Strings(ms)
			fmt.Println("INFERRED-MODS:", strings.Join(ms, " "))
			for w := range prog.modWhy {
				fmt.Println("  unknown effects because of:", w)
			}
		}
		for i, h := range g.loopOrd {
			fmt.Printf("loop %d: header block %d (%s)\n", i, h.Index, h.Comment)
		}
		for _, n := range sortedNotes(g.notes) {
			fmt.Println("NOTE:", n)
		}
		for _, e := range g.errs {
			fmt.Println("ERROR:", e)
		}
		for _, o := range g.obls {
			fmt.Printf("OBL %s [%s] %s\n", o.Name, o.Expect, o.Text)
			if *smt {
				fmt.Println(g.query(o))
			}
		}
	}
	return 0
}

type Finding struct {
	Prop       string
	Obligation string
	Text       string
}

func loadKnownFindings() []Finding {
	b, err := os.ReadFile(filepath.Join(verifDir, "known_findings.txt"))
	if err != nil {
		return nil
	}
	var out []Finding
	re := regexp.MustCompile(`^finding:\s+property=(\S+)\s+obligation=(\S+)\s+--\s+(.*)$`)
	for _, l := range strings.Split(string(b), "\n") {
		if m := re.FindStringSubmatch(strings.TrimSpace(l)); m != nil {
			out = append(out, Finding{m[1], m[2], m[3]})
		}
	}
	return out
}

func cmdCheck(args []string) int {
	fs := flag.NewFlagSet("check", flag.ExitOnError)
	repo := fs.String("repo", "/repo", "repository")
	prop := fs.String("prop", "", "property id")
	tier := fs.String("tier", "", "quick|thorough")
	only := fs.String("only", "", "only obligations whose name contains this")
	keep := fs.Bool("keep", false, "keep query files")
	noEvidence := fs.Bool("no-evidence", false, "do not write the evidence file")
	noRep := fs.Bool("no-replay", false, "do not replay failures or write replay files")
	noRetry := fs.Bool("no-retry", false, "one pass only: no retry with longer limits (canary runs: a tree known to be broken only has to be reported, not classified)")
	verbose := fs.Bool("v", false, "print every obligation with its result")
	fs.Parse(args)
	if *tier == "" {
		*tier = os.Getenv("VERIF_TIER")
	}
	if *tier == "" {
		*tier = "quick"
	}
	seed := 0
	if s := os.Getenv("VERIF_SEED"); s != "" {
		seed, _ = strconv.Atoi(s)
	}
	start := time.Now()
	props, err := loadProps()
	if err != nil {
		fmt.Println("cannot read props.json:", err)
		return 2
	}
	pc, ok := props[*prop]
	if !ok {
		fmt.Println("unknown property", *prop)
		return 2
	}
	prog, err := loadProgram(*repo, pc.Packages, filepath.Join(verifDir, "spec"))
	if err != nil {
		fmt.Println("TOOL-ERROR: cannot load packages:", err)
		return 2
	}
	prog.curProp = *prop
	noReplay = *noRep
	timeout := 30 * time.Second
	if *tier == "thorough" {
		timeout = 90 * time.Second
	}
	wd := workDir(*prop + "-" + *tier)
	if !*keep {
		// one directory per run: concurrent checks of the same property must not share query files
		wd = workDir(fmt.Sprintf("%s-%s-%d", *prop, *tier, os.Getpid()))
	}
	defer func() {
		if !*keep {
			os.RemoveAll(wd)
		}
	}()

	// a trusted postcondition (assume_ensures) of a verified function acts as a ghost assignment:
	// every ghost it mentions must be in the function's modifies, otherwise the clause would
	// constrain program values through a ghost the callers still hold the old value of
	for _, k := range prog.cs.Order {
		ct := prog.cs.Funcs[k]
		if ct.Assumed {
			continue
		}
		for _, cl := range ct.Ensures {
			if !cl.Free {
				continue
			}
			for gname := range prog.cs.Ghosts {
				if !regexp.MustCompile(`(^|[^A-Za-z0-9_.])` + regexp.QuoteMeta(gname) + `($|[^A-Za-z0-9_])`).MatchString(cl.Text) {
					continue
				}
				ok := false
				for _, m := range ct.Modifies {
					if m == "ghost."+gname || (m == "ghost.iteration" && (strings.HasPrefix(gname, "rec_") || strings.HasPrefix(gname, "it_"))) {
						ok = true
					}
				}
				if !ok {
					fmt.Printf("TOOL-ERROR: %s: assume_ensures %q mentions ghost %s, which is not in the function's modifies\n", k, cl.Text, gname)
					return 2
				}
			}
		}
	}

	// functions under contract for this property
	var keys []string
	for _, k := range prog.cs.Order {
		ct := prog.cs.Funcs[k]
		if ct.Assumed || ct.Uncalled {
			continue
		}
		for _, p := range ct.Props {
			if p == *prop {
				keys = append(keys, k)
			}
		}
	}
	toolErr := false
	var structural []*oblResult
	var results []*oblResult
	var gens []*Gen
	var funcsUnder []string
	for _, k := range keys {
		f, ok := prog.funcs[k]
		if !ok || f.Blocks == nil {
			// the function the property's obligations were attached to is gone (removed, renamed,
			// split): those obligations can no longer be discharged -- reported as a failed
			// obligation (it passed on the tree the contract was written for), not as a tool error
			fmt.Printf("NOTE: contract target %s not found in the source (renamed, removed or restructured)\n", trimName(k))
			ct := prog.cs.Funcs[k]
			o := &Obligation{Name: trimName(k) + ":structural.contract-target-exists", Kind: "structural", Func: trimName(k), Where: ct.Where, Expect: "unsat",
				Text: "the function under contract exists, so that its obligations (" + fmt.Sprint(len(ct.Ensures)) + " postconditions, " + fmt.Sprint(len(ct.Requires)) + " preconditions) can be generated"}
			structural = append(structural, &oblResult{O: o, Q: "; decided while loading the packages\n", Res: SolverResult{Status: "unknown", Solver: "kbv-load", Output: "no function " + k + " in the loaded packages"}})
			continue
		}
		g := newGen(prog, f, prog.cs.Funcs[k])
		g.run()
		for _, e := range g.errs {
			fmt.Printf("TOOL-ERROR: %s: %s\n", k, e)
			toolErr = true
		}
		for _, si := range g.staleInv {
			fmt.Printf("NOTE: %s: loop invariant no longer applies and was dropped: %s\n", trimName(k), si)
		}
		gens = append(gens, g)
		funcsUnder = append(funcsUnder, trimName(k))
		for _, o := range g.obls {
			if *only != "" && !strings.Contains(o.Name, *only) {
				continue
			}
			results = append(results, &oblResult{O: o, G: g})
		}
	}
	// structural obligations (decided on the SSA call graph, not by a solver)
	for _, k := range prog.cs.Order {
		ct := prog.cs.Funcs[k]
		inProp := false
		for _, p := range ct.Props {
			if p == *prop {
				inProp = true
			}
		}
		if inProp && len(ct.CallersOnly) > 0 {
			if f := prog.funcs[k]; f != nil {
				var bad []string
				for _, c := range findCallers(prog, f) {
					ok := false
					for _, a := range ct.CallersOnly {
						if strings.HasSuffix(c, a) {
							ok = true
						}
					}
					if !ok {
						bad = append(bad, c)
					}
				}
				o := &Obligation{Name: funcDisplayName(f) + ":structural.callers-only", Kind: "structural", Func: funcDisplayName(f), Where: ct.Where, Expect: "unsat",
					Text: "the only callers of " + trimName(k) + " are " + strings.Join(ct.CallersOnly, ", ")}
				r := &oblResult{O: o, Q: "; decided by scanning the SSA of all loaded packages\n"}
				if len(bad) == 0 {
					r.Res = SolverResult{Status: "unsat", Solver: "kbv-callgraph-scan"}
				} else {
					r.Res = SolverResult{Status: "unknown", Solver: "kbv-callgraph-scan", Output: "other callers: " + strings.Join(bad, ", ")}
				}
				structural = append(structural, r)
			}
		}
		// a precondition about held locks is only worth something if every caller is checked
		// against it: each caller must itself be a function under contract for this property
		if inProp && !ct.Assumed && *prop == "C19" {
			lockReq := false
			for _, rc := range ct.Requires {
				if strings.Contains(rc.Text, "holds(") || strings.Contains(rc.Text, "holds_w(") {
					lockReq = true
				}
			}
			if f := prog.funcs[k]; lockReq && f != nil {
				var bad []string
				for _, ck := range findCallerKeysOpt(prog, f, false) {
					cct := prog.cs.Funcs[ck]
					ok := false
					if cct != nil {
						for _, p := range cct.Props {
							if p == *prop {
								ok = true
							}
						}
					}
					if !ok {
						bad = append(bad, trimName(ck))
					}
				}
				o := &Obligation{Name: funcDisplayName(f) + ":structural.lock-precondition-checked-at-every-caller", Kind: "structural", Func: funcDisplayName(f), Where: ct.Where, Expect: "unsat",
					Text: "every static caller of " + trimName(k) + " (which requires a lock to be held) is a function under contract for this property, so the requirement is checked at its call (calls through an interface are entry points: the requirement is an assumption there)"}
				r := &oblResult{O: o, Q: "; decided by scanning the SSA of all loaded packages\n"}
				if len(bad) == 0 {
					r.Res = SolverResult{Status: "unsat", Solver: "kbv-callgraph-scan"}
				} else {
					r.Res = SolverResult{Status: "unknown", Solver: "kbv-callgraph-scan", Output: "callers not under contract: " + strings.Join(bad, ", ")}
				}
				structural = append(structural, r)
			}
		}
		if inProp && ct.NotSpawned != "" {
			if f := prog.funcs[k]; f != nil {
				var sites []string
				for key, fn := range prog.funcs {
					for _, b := range fn.Blocks {
						for _, in := range b.Instrs {
							if gs, ok := in.(*ssa.Go); ok && gs.Call.StaticCallee() == f {
								sites = append(sites, trimName(key)+" at "+prog.ssa.Fset.Position(gs.Pos()).String())
							}
						}
					}
				}
				sort.Strings(sites)
				o := &Obligation{Name: funcDisplayName(f) + ":structural.not-spawned", Kind: "structural", Func: funcDisplayName(f), Where: ct.Where, Expect: "unsat",
					Text: "no go statement starts " + trimName(k) + ": " + ct.NotSpawned}
				r := &oblResult{O: o, Q: "; decided by scanning the SSA of all loaded packages\n"}
				if len(sites) == 0 {
					r.Res = SolverResult{Status: "unsat", Solver: "kbv-callgraph-scan"}
				} else {
					r.Res = SolverResult{Status: "unknown", Solver: "kbv-callgraph-scan", Output: "started as a goroutine by: " + strings.Join(sites, ", ")}
				}
				structural = append(structural, r)
			}
		}
		if !inProp || !ct.Uncalled {
			continue
		}
		f := prog.funcs[k]
		if f == nil {
			fmt.Printf("TOOL-ERROR: contract target %s not found\n", k)
			toolErr = true
			continue
		}
		callers := findCallers(prog, f)
		o := &Obligation{Name: funcDisplayName(f) + ":structural.uncalled", Kind: "structural", Func: funcDisplayName(f), Where: ct.Where, Expect: "unsat",
			Text: "no function of the loaded program calls " + trimName(k) + " (directly or through an interface)"}
		r := &oblResult{O: o, Q: "; decided by scanning the SSA of all loaded packages\n"}
		if len(callers) == 0 {
			r.Res = SolverResult{Status: "unsat", Solver: "kbv-callgraph-scan"}
		} else {
			r.Res = SolverResult{Status: "unknown", Solver: "kbv-callgraph-scan", Output: "callers: " + strings.Join(callers, ", ")}
		}
		structural = append(structural, r)
	}
	// atomic-only fields: every use of the field's address is an argument of a sync/atomic call
	for _, ao := range prog.cs.AtomicOnly {
		in := false
		for _, p := range ao.Props {
			if p == *prop {
				in = true
			}
		}
		if !in {
			continue
		}
		bad := atomicOnlyViolations(prog, ao)
		o := &Obligation{Name: sanitize(ao.Pkg) + "." + ao.Field + ":structural.atomic-only", Kind: "structural", Func: ao.Field, Where: ao.Where, Expect: "unsat",
			Text: "field " + ao.Field + " is accessed only through sync/atomic"}
		r := &oblResult{O: o, Q: "; decided by scanning the SSA of the declaring package\n"}
		if len(bad) == 0 {
			r.Res = SolverResult{Status: "unsat", Solver: "kbv-ssa-scan"}
		} else {
			r.Res = SolverResult{Status: "unknown", Solver: "kbv-ssa-scan", Output: "plain accesses: " + strings.Join(bad, ", ")}
		}
		structural = append(structural, r)
	}
	for _, ex := range pc.Extra {
		if ex == "metrics" {
			structural = append(structural, metricObligations(prog)...)
		}
	}
	// global invariants: proved from the package initialisers
	for _, pk := range prog.pkgs {
		has := false
		for _, gi := range prog.cs.Globals {
			if gi.Pkg == pk.PkgPath {
				has = true
			}
		}
		used := false
		for _, k := range keys {
			if prog.cs.Funcs[k].Pkg == pk.PkgPath {
				used = true
			}
		}
		if !has || !used {
			continue
		}
		g := genInit(prog, pk.PkgPath)
		if g == nil {
			continue
		}
		for _, e := range g.errs {
			fmt.Printf("TOOL-ERROR: init of %s: %s\n", pk.PkgPath, e)
			toolErr = true
		}
		gens = append(gens, g)
		for _, o := range g.obls {
			if *only != "" && !strings.Contains(o.Name, *only) {
				continue
			}
			results = append(results, &oblResult{O: o, G: g})
		}
	}
	// lemmas (pure SMT over the spec functions)
	lemmaFiles := append([]string{}, pc.Lemmas...)
	if *tier == "thorough" {
		for _, imp := range pc.Imports {
			if ip, ok := props[imp]; ok {
				lemmaFiles = append(lemmaFiles, ip.Lemmas...)
			}
		}
	}
	for _, lf := range lemmaFiles {
		ls, err := loadLemmas(filepath.Join(verifDir, "spec", lf), prog.lib)
		if err != nil {
			fmt.Println("TOOL-ERROR:", err)
			toolErr = true
			continue
		}
		for _, l := range ls {
			if *only != "" && !strings.Contains(l.O.Name, *only) {
				continue
			}
			results = append(results, l)
		}
	}
	if toolErr {
		fmt.Println("cannot decide: tool errors above")
		return 2
	}

	// discharge
	var wg sync.WaitGroup
	var retries int32
	knownNames := map[string]bool{}
	for _, k := range loadKnownFindings() {
		if k.Prop == *prop {
			knownNames[k.Obligation] = true
		}
	}
	sem := make(chan struct{}, 6)
	for i, r := range results {
		wg.Add(1)
		go func(i int, r *oblResult) {
			defer wg.Done()
			sem <- struct{}{}
			defer func() { <-sem }()
			if r.Q == "" {
				r.Q = r.G.query(r.O)
			}
			if *keep && !strings.HasPrefix(r.Q, "; obligation ") {
				r.Q = "; obligation " + r.O.Name + "\n" + r.Q
			}
			file := filepath.Join(wd, fmt.Sprintf("q%04d.smt2", i))
			var mt []string
			if r.G != nil {
				for _, mv := range r.G.replayTerms() {
					mt = append(mt, mv.Term)
				}
			}
			to := timeout
			if r.O.Expect == "sat" {
				to = 6 * time.Second
				if *tier != "thorough" {
					to = 4 * time.Second
				}
			}
			if knownNames[r.O.Name] {
				// a recorded finding is expected to stay undischarged: do not spend the long limits on it
				to = 10 * time.Second
			}
			if r.O.Expect == "sat" && *tier != "thorough" {
				r.Res = runSolversLight(r.Q, file, to, seed)
				return
			}
			r.Res = runSolvers(r.Q, file, to, r.O.Expect == "unsat", mt, *tier == "thorough" && r.O.Expect == "unsat", seed)
			if r.O.Expect == "unsat" && r.Res.Status != "unsat" && r.Res.Status != "sat" && !knownNames[r.O.Name] && !*noRetry && atomic.AddInt32(&retries, 1) <= 6 {
				// retry once with a longer limit before calling it undischarged (at most six
				// obligations per run: a tree on which many obligations fail is reported promptly)
				r.Res = runSolvers(r.Q, file, 3*timeout, true, mt, false, seed+1)
			}
		}(i, r)
	}
	wg.Wait()
	// obligations on which every back end ran out of time are tried once more, one at a time with
	// the machine to themselves and a long limit: on a loaded machine (several checks running at
	// once) a slow-but-provable obligation must not turn into an alarm. At most four of them, so
	// a tree on which many obligations fail is still reported within minutes.
	late := 0
	for i, r := range results {
		if r.O.Expect != "unsat" || r.Res.Status != "timeout" || knownNames[r.O.Name] || late >= 4 || *noRetry {
			continue
		}
		late++
		file := filepath.Join(wd, fmt.Sprintf("q%04d.late.smt2", i))
		r.Res = runSolvers(r.Q, file, 100*time.Second, true, nil, false, seed+2)
	}
	results = append(results, structural...)

	// fold
	known := loadKnownFindings()
	nObl, nDis, nCover, nCoverOK := 0, 0, 0, 0
	bySolver := map[string]int{}
	solverTime := 0.0
	type slowRec struct {
		name   string
		secs   float64
		solver string
	}
	var slow []slowRec
	var samples []map[string]interface{}
	var safetySamples []map[string]interface{}
	var failed []*oblResult
	single := 0
	for _, r := range results {
		if *verbose {
			fmt.Printf("  %-8s %-10s %6.2fs %s\n", r.Res.Status, r.Res.Solver, r.Res.Seconds, r.O.Name)
		}
		if r.O.Expect == "sat" {
			nCover++
			switch r.Res.Status {
			case "sat":
				nCoverOK++
			case "unsat":
				// a cover that follows a failed obligation of the same function is unreachable only
				// because that obligation is assumed afterwards: the failure is reported there
				after := false
				for _, q := range results {
					if q == r {
						break
					}
					if q.O.Expect == "unsat" && q.O.Func == r.O.Func && q.Res.Status != "unsat" {
						after = true
					}
				}
				if after {
					break
				}
				if r.O.Kind == "cover" {
					// a return that cannot be reached under the contract's preconditions: dead code or a
					// precondition stronger than the code needs -- reported, not a property violation
					fmt.Printf("NOTE: unreachable under the preconditions: %s\n", r.O.Text)
					break
				}
				fmt.Printf("VACUOUS: %s: %s\n", r.O.Name, r.O.Text)
				failed = append(failed, r)
			default:
				// inconclusive cover: reported, not a failure
				fmt.Printf("cover inconclusive (%s): %s\n", r.Res.Status, r.O.Name)
			}
			continue
		}
		nObl++
		solverTime += r.Res.Seconds
		slow = append(slow, slowRec{r.O.Name, r.Res.Seconds, r.Res.Solver})
		if r.Res.Status == "unsat" {
			nDis++
			bySolver[r.Res.Solver]++
			agree := 0
			for _, s := range r.Res.All {
				if s == "unsat" {
					agree++
				}
			}
			if agree < 2 {
				single++
			}
			// samples: prefer the obligations that carry the property (postconditions, call
			// preconditions, invariants, lemmas, structural ones) over routine safety checks
			sm := map[string]interface{}{"obligation": r.O.Name, "kind": r.O.Kind, "statement": r.O.Text, "solver": r.Res.Solver, "seconds": round3(r.Res.Seconds), "smt_bytes": len(r.Q)}
			if strings.HasPrefix(r.O.Kind, "safety") || r.O.Kind == "frame" {
				if len(safetySamples) < 2 {
					safetySamples = append(safetySamples, sm)
				}
			} else if len(samples) < 8 {
				samples = append(samples, sm)
			}
			continue
		}
		failed = append(failed, r)
	}
	violations := 0
	knownHit := 0
	os.MkdirAll(filepath.Join(verifDir, "replays", *prop), 0o755)
	for _, r := range failed {
		isKnown := false
		for _, k := range known {
			if k.Prop == *prop && k.Obligation == r.O.Name {
				fmt.Printf("KNOWN-FINDING: property=%s %s %s\n", *prop, r.O.Name, k.Text)
				isKnown = true
				knownHit++
			}
		}
		if isKnown {
			continue
		}
		if r.Res.Status == "error" {
			// the solvers could not be run or rejected the query: undecided by a fault of the tooling
			fmt.Printf("TOOL-ERROR: %s: solver error: %s\n", r.O.Name, strings.TrimSpace(r.Res.Output))
			toolErr = true
			continue
		}
		violations++
		path, suffix := writeReplay(prog, *prop, r)
		fmt.Printf("FAILED %s [%s] %s (%s)\n", r.O.Name, r.Res.Status, r.O.Text, r.O.Where)
		fmt.Printf("VIOLATION property=%s replay=%s%s\n", *prop, path, suffix)
	}
	// canaries: every known finding for this property must still fail (otherwise the file is stale)
	for _, k := range known {
		if k.Prop != *prop {
			continue
		}
		still := false
		for _, r := range failed {
			if r.O.Name == k.Obligation {
				still = true
			}
		}
		if !still && *only == "" {
			fmt.Printf("NOTE: known finding %s no longer fails (repaired?) -- move it to a fixed: line\n", k.Obligation)
		}
	}

	// evidence
	assumed := map[string]bool{}
	notes := map[string]bool{}
	for _, g := range gens {
		for a := range g.assumed {
			assumed[a] = true
		}
		for n := range g.notes {
			notes[funcDisplayName(g.fn)+": "+n] = true
		}
	}
	trusted := []string{
		"kbv VC generator (go/ssa -> SMT-LIB translation, this repository's /verif/kbv)",
		"SMT solvers z3 4.8.12 / z3 5.1.0 / cvc5 1.0.3 (unsat answers)",
		"go/ssa construction (golang.org/x/tools v0.29.0)",
		"linux/amd64: int is 64 bit; allocations are at most 2^48 elements",
		"method receivers are non-nil",
	}
	trusted = append(trusted, prog.cs.Trusted...)
	assumptions := append([]string{}, pc.Assumptions...)
	assumptions = append(assumptions, sortedNotes(assumed)...)
	for _, n := range sortedNotes(notes) {
		assumptions = append(assumptions, "abstraction: "+n)
	}
	level := "proof"
	if nDis != nObl || nObl == 0 {
		level = "other"
	}
	if pc.Level == "other" {
		// claimed as a weaker level (a discipline check, or a property with a recorded finding)
		level = "other"
	}
	expl := pc.Explanation
	if expl == "" {
		expl = "Obligations are generated by kbv from the SSA of the functions under contract (contracts in pkg/**/zz_contracts_verif.go) and discharged by SMT solvers; structural obligations are decided on the SSA call graph."
	}
	if knownHit > 0 {
		expl += fmt.Sprintf(" %d obligation(s) fail and are recorded as known findings; they are not counted as discharged.", knownHit)
	}
	sort.Slice(slow, func(i, j int) bool { return slow[i].secs > slow[j].secs })
	var slowest []string
	for i := 0; i < len(slow) && i < 5; i++ {
		slowest = append(slowest, fmt.Sprintf("%s: %.1fs (%s)", slow[i].name, slow[i].secs, slow[i].solver))
	}
	cov := map[string]interface{}{
		"obligations":              nObl,
		"discharged":               nDis,
		"checker_cmd":              fmt.Sprintf("kbv check -prop %s -tier %s (z3 4.8.12, z3-new 5.1.0, z3-new 5.1.0 with smt.relevancy=0, cvc5 1.0.3 raced per obligation)", *prop, *tier),
		"trusted_base":             trusted,
		"explanation":              expl,
		"functions_under_contract": funcsUnder,
		"discharged_by_solver":     bySolver,
		"solver_time_s":            round3(solverTime),
		"slowest_obligations":      slowest,
		"vacuity_and_cover_checks": map[string]int{"generated": nCover, "sat_as_expected": nCoverOK},
		"known_findings_hit":       knownHit,
		"bounded_stand_ins":        pc.Bounded,
		"samples":                  samples,
		"integer_model":            "signed Go integers: SMT Int with exact two's-complement wrap (wrap64/wrap32); unsigned: bit-vectors of their width",
	}
	if *tier == "thorough" {
		cov["single_solver_only"] = single
	}
	samples = append(samples, safetySamples...)
	if len(samples) == 0 {
		cov["samples"] = []string{"(no obligation discharged)"}
	}
	ev := map[string]interface{}{
		"property_id": *prop,
		"tier":        *tier,
		"seed":        seed,
		"level":       level,
		"coverage":    cov,
		"assumptions": assumptions,
		"wall_s":      round3(time.Since(start).Seconds()),
		"violations":  violations,
	}
	if !*noEvidence && *only == "" {
		os.MkdirAll(filepath.Join(verifDir, "evidence"), 0o755)
		b, _ := json.MarshalIndent(ev, "", " ")
		os.WriteFile(filepath.Join(verifDir, "evidence", *prop+".json"), append(b, '\n'), 0o644)
	}
	fmt.Printf("%s %s: %d functions, %d obligations, %d discharged, %d known findings, %d violations, %d/%d cover checks sat, %.1fs\n",
		*prop, *tier, len(funcsUnder), nObl, nDis, knownHit, violations, nCoverOK, nCover, time.Since(start).Seconds())
	if nObl == 0 {
		fmt.Println("TOOL-ERROR: no obligations generated (vacuous check)")
		return 2
	}
	if violations > 0 {
		return 1
	}
	if toolErr {
		return 2
	}
	return 0
}

func round3(f float64) float64 {
	return float64(int(f*1000+0.5)) / 1000
}

// atomicOnlyViolations lists the places where the field is read or written directly.
func atomicOnlyViolations(prog *Program, ao AtomicOnlyDecl) []string {
	i := strings.LastIndex(ao.Field, ".")
	if i < 0 {
		return []string{"bad designator"}
	}
	tn, fn := ao.Field[:i], ao.Field[i+1:]
	var bad []string
	for key, f := range prog.funcs {
		if f.Pkg == nil || f.Pkg.Pkg.Path() != ao.Pkg || f.Blocks == nil {
			continue
		}
		for _, b := range f.Blocks {
			for _, in := range b.Instrs {
				fa, ok := in.(*ssa.FieldAddr)
				if !ok {
					continue
				}
				pt := fa.X.Type().Underlying().(*types.Pointer)
				n, ok := pt.Elem().(*types.Named)
				if !ok || n.Obj().Name() != tn {
					continue
				}
				if pt.Elem().Underlying().(*types.Struct).Field(fa.Field).Name() != fn {
					continue
				}
				for _, r := range *fa.Referrers() {
					okUse := false
					if c, isCall := r.(*ssa.Call); isCall {
						if strings.HasPrefix(calleeName(&c.Call), "sync/atomic.") {
							okUse = true
						}
					}
					if _, isDbg := r.(*ssa.DebugRef); isDbg {
						okUse = true
					}
					if !okUse {
						bad = append(bad, trimName(key)+" at "+prog.ssa.Fset.Position(r.Pos()).String())
					}
				}
			}
		}
	}
	sort.Strings(bad)
	return bad
}

// findCallers lists functions that may call f: static calls, closures, and interface
// invocations of a method with f's name on an interface f's receiver implements.
func findCallers(prog *Program, f *ssa.Function) []string {
	var out []string
	for _, k := range findCallerKeys(prog, f) {
		out = append(out, trimName(k))
	}
	return out
}

func findCallerKeys(prog *Program, f *ssa.Function) []string {
	return findCallerKeysOpt(prog, f, true)
}

// withInvoke: also count calls through an interface the receiver type implements
func findCallerKeysOpt(prog *Program, f *ssa.Function, withInvoke bool) []string {
	var out []string
	var recv types.Type
	if f.Signature.Recv() != nil {
		recv = f.Signature.Recv().Type()
	}
	for key, fn := range prog.funcs {
		if fn.Blocks == nil || fn == f {
			continue
		}
		hit := false
		for _, b := range fn.Blocks {
			for _, in := range b.Instrs {
				var cc *ssa.CallCommon
				switch v := in.(type) {
				case *ssa.Call:
					cc = &v.Call
				case *ssa.Go:
					cc = &v.Call
				case *ssa.Defer:
					cc = &v.Call
				}
				if cc == nil {
					// function value taken
					for _, op := range in.Operands(nil) {
						if *op == ssa.Value(f) {
							hit = true
						}
					}
					continue
				}
				if cc.IsInvoke() {
					if withInvoke && recv != nil && cc.Method.Name() == f.Name() {
						if it, ok := cc.Value.Type().Underlying().(*types.Interface); ok && types.Implements(recv, it) {
							hit = true
						}
					}
				} else if cc.StaticCallee() == f {
					hit = true
				}
				for _, a := range cc.Args {
					if a == ssa.Value(f) {
						hit = true
					}
				}
			}
		}
		if hit {
			out = append(out, key)
		}
	}
	sort.Strings(out)
	return out
}

// genInit verifies the package's global invariants from its initialiser.
func genInit(prog *Program, pkgPath string) *Gen {
	sp := prog.spkgs[pkgPath]
	if sp == nil {
		return nil
	}
	init := sp.Func("init")
	if init == nil || init.Blocks == nil {
		return nil
	}
	ct := &Contract{Key: pkgPath + ".init", Pkg: pkgPath, Name: "init", LoopInv: map[int][]Clause{}, LoopMod: map[int][]string{}, Where: "global invariants", Modifies: []string{"*"}}
	for _, gi := range prog.cs.Globals {
		if gi.Pkg == pkgPath {
			cl := gi.Clause
			if cl.Label == "" {
				cl.Label = "global"
			}
			ct.Ensures = append(ct.Ensures, cl)
		}
	}
	g := newGen(prog, init, ct)
	g.run()
	// no other function of the package may store to a global that an invariant mentions:
	for key, f := range prog.funcs {
		if f.Pkg != sp || f == init || f.Blocks == nil {
			continue
		}
		for _, b := range f.Blocks {
			for _, in := range b.Instrs {
				if s, ok := in.(*ssa.Store); ok {
					if gl, ok := s.Addr.(*ssa.Global); ok {
						g.errorf("global %s is assigned outside init in %s: global invariants are unsound", gl.Name(), key)
					}
				}
			}
		}
	}
	return g
}

// ---------- lemma files ----------

var reLemma = regexp.MustCompile(`^;\s*lemma\s+(\S+)(\s+expect\s+(sat|unsat))?\s*(.*)$`)

func loadLemmas(path string, lib *SpecLib) ([]*oblResult, error) {
	b, err := os.ReadFile(path)
	if err != nil {
		return nil, err
	}
	var pre strings.Builder
	var out []*oblResult
	var cur *oblResult
	reveal := map[string]bool{}
	for _, l := range strings.Split(string(b), "\n") {
		if strings.HasPrefix(strings.TrimSpace(l), "; reveal ") {
			for _, n := range strings.Fields(strings.TrimPrefix(strings.TrimSpace(l), "; reveal ")) {
				reveal[n] = true
			}
		}
	}
	var body strings.Builder
	flush := func() {
		if cur != nil {
			cur.Q = prelude + lib.TextFor(reveal) + pre.String() + body.String() + "(check-sat)\n"
			out = append(out, cur)
		}
		body.Reset()
	}
	for _, l := range strings.Split(string(b), "\n") {
		if m := reLemma.FindStringSubmatch(strings.TrimSpace(l)); m != nil {
			flush()
			exp := "unsat"
			if m[3] != "" {
				exp = m[3]
			}
			name := "lemma:" + filepath.Base(path) + ":" + m[1]
			kind := "lemma"
			if exp == "sat" {
				kind = "lemma-canary"
			}
			cur = &oblResult{O: &Obligation{Name: name, Kind: kind, Func: "spec", Where: filepath.Base(path), Text: strings.TrimSpace(m[4]), Expect: exp}}
			continue
		}
		if cur == nil {
			pre.WriteString(l + "\n")
		} else {
			body.WriteString(l + "\n")
		}
	}
	flush()
	return out, nil
}
