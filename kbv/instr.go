package main

import (
	"fmt"
	"go/token"
	"go/types"
	"strings"

	"golang.org/x/tools/go/ssa"
)

func (g *Gen) safety(kind, text string, pos token.Pos, reach, cond string) {
	if g.ct != nil && g.ct.NoSafety && g.noSafetyHere() {
		// thin contract: the panic-freedom obligations of this function are not generated here
		// (they belong to the C20 sweep); the execution is assumed not to panic at this point
		g.assume(app("=>", reach, cond))
		g.assumed["safety obligations not generated (nosafety contract): "+funcDisplayName(g.fn)] = true
		return
	}
	g.newObligation("safety."+kind, "", text, g.where(pos), app("=>", reach, cond))
}

func (g *Gen) execInstr(in ssa.Instruction, st State, reach string) {
	switch v := in.(type) {
	case *ssa.DebugRef, *ssa.Phi:
		return
	case *ssa.Alloc:
		g.execAlloc(v, st)
	case *ssa.BinOp:
		g.execBinOp(v, reach)
	case *ssa.UnOp:
		g.execUnOp(v, st, reach)
	case *ssa.Call:
		g.execCall(v, &v.Call, v, st, reach)
	case *ssa.ChangeInterface:
		g.setVal(v, g.val(v.X).S)
	case *ssa.ChangeType:
		x := g.val(v.X)
		if x.So.Name == g.te.sortOf(v.Type()).Name {
			g.setVal(v, x.S)
		} else {
			g.havocVal(v)
			g.note("ChangeType between different sorts at %s: havocked", g.where(v.Pos()))
		}
	case *ssa.Convert:
		g.execConvert(v, st)
	case *ssa.Extract:
		if ts, ok := g.tuples[v.Tuple]; ok && v.Index < len(ts) {
			t := ts[v.Index]
			t.GoT = v.Type()
			g.vals[v] = t
		} else {
			g.havocVal(v)
		}
	case *ssa.Field:
		x := g.val(v.X)
		if x.So.K == KData {
			g.setVal(v, app(x.So.Fields[v.Field].Acc, x.S))
		} else {
			g.havocVal(v)
		}
	case *ssa.FieldAddr:
		x := g.val(v.X)
		if _, isAlloc := v.X.(*ssa.Alloc); !isAlloc || !g.isCellAlloc(v.X.(*ssa.Alloc)) {
			switch v.X.(type) {
			case *ssa.FieldAddr, *ssa.IndexAddr:
			default:
				g.safety("nil", fmt.Sprintf("nil dereference of %s (field %s)", v.X.Name(), fieldName(v)), v.Pos(), reach, app("not", app("=", x.S, "0")))
			}
		}
	case *ssa.IndexAddr:
		x := g.val(v.X)
		i := g.toInt(g.val(v.Index))
		if x.So.K == KSlice {
			g.safety("bounds", fmt.Sprintf("index %s in range of %s", v.Index.Name(), v.X.Name()), v.Pos(), reach, and(app("<=", "0", i), app("<", i, app("s_len", x.S))))
		} else if a, ok := v.X.Type().Underlying().(*types.Pointer); ok {
			if arr, ok := a.Elem().Underlying().(*types.Array); ok {
				if _, isConst := v.Index.(*ssa.Const); !isConst {
					g.safety("bounds", fmt.Sprintf("index %s in range of array", v.Index.Name()), v.Pos(), reach, and(app("<=", "0", i), app("<", i, fmt.Sprint(arr.Len()))))
				}
			}
		}
	case *ssa.Index:
		x := g.val(v.X)
		i := g.toInt(g.val(v.Index))
		switch x.So.K {
		case KStr:
			g.safety("bounds", "string index in range", v.Pos(), reach, and(app("<=", "0", i), app("<", i, app("slen", x.S))))
			g.setVal(v, app("select", app("sarr", x.S), i))
		case KArray:
			g.safety("bounds", "array index in range", v.Pos(), reach, and(app("<=", "0", i), app("<", i, fmt.Sprint(x.So.W))))
			g.setVal(v, app("select", x.S, i))
		default:
			g.havocVal(v)
		}
	case *ssa.Lookup:
		g.execLookup(v, st, reach)
	case *ssa.MakeChan:
		g.allocRef(v, st)
	case *ssa.MakeMap:
		g.allocRef(v, st)
	case *ssa.MakeClosure:
		g.allocRef(v, st)
	case *ssa.MakeInterface:
		x := g.val(v.X)
		tag := g.te.tagOf(v.X.Type())
		payload := x.S
		switch x.So.K {
		case KRef, KInt:
		default:
			payload = g.fresh("boxed", SMath)
		}
		if x.So.K == KBV {
			payload = app("bv2nat", x.S)
		}
		g.setVal(v, app("ibox", fmt.Sprint(tag), payload))
	case *ssa.MakeSlice:
		g.execMakeSlice(v, st, reach)
	case *ssa.Next:
		so := []*Sort{SBool}
		tt := v.Type().(*types.Tuple)
		ts := []T{{S: g.fresh(v.Name()+".ok", SBool), So: SBool}}
		for i := 1; i < tt.Len(); i++ {
			s := g.te.sortOf(tt.At(i).Type())
			so = append(so, s)
			t := T{S: g.fresh(fmt.Sprintf("%s.%d", v.Name(), i), s), So: s, GoT: tt.At(i).Type()}
			g.assumeTypeInv(t, st)
			ts = append(ts, t)
		}
		g.tuples[v] = ts
	case *ssa.Range:
		g.vals[v] = T{S: "0", So: SRef, GoT: v.Type()}
	case *ssa.Select:
		tt := v.Type().(*types.Tuple)
		var ts []T
		for i := 0; i < tt.Len(); i++ {
			s := g.te.sortOf(tt.At(i).Type())
			t := T{S: g.fresh(fmt.Sprintf("%s.%d", v.Name(), i), s), So: s, GoT: tt.At(i).Type()}
			g.assumeTypeInv(t, st)
			ts = append(ts, t)
		}
		n := len(v.States)
		lo := "0"
		if !v.Blocking {
			lo = "(- 1)"
		}
		g.assume(and(app("<=", lo, ts[0].S), app("<", ts[0].S, fmt.Sprint(n))))
		g.tuples[v] = ts
		for _, sst := range v.States {
			if sst.Dir == types.SendOnly {
				g.chanOpLocked("send", false, v.Pos(), st, reach)
				break
			}
		}
		g.chanEffects(v, ts, st, reach)
	case *ssa.Slice:
		g.execSlice(v, st, reach)
	case *ssa.TypeAssert:
		g.execTypeAssert(v, st, reach)
	case *ssa.Go:
		g.note("go statement at %s: spawned call not followed (spawned function verified separately if under contract)", g.where(v.Pos()))
		g.goEffects(v, st, reach)
	case *ssa.Defer:
		g.deferSt = append(g.deferSt, v)
	case *ssa.RunDefers:
		g.runDefers(st, reach)
	case *ssa.If, *ssa.Jump:
	case *ssa.Return:
		g.execReturn(v, st, reach)
	case *ssa.Panic:
		if g.ct == nil || !g.ct.MayPanic {
			g.safety("panic", "explicit panic is unreachable", v.Pos(), reach, "false")
		}
	case *ssa.Store:
		lv := g.resolveAddr(v.Addr, st)
		if lv.kind == lvBad && g.storeStruct(v, st, reach) {
			return
		}
		if lv.kind == lvBad {
			g.note("store through unsupported address %s at %s: all heaps havocked", v.Addr.Name(), g.where(v.Pos()))
			g.havocAllHeaps(st)
			return
		}
		g.guardedAccess(lv, true, st, reach, v.Pos())
		g.lvStore(lv, st, g.val(v.Val).S)
	case *ssa.MapUpdate:
		g.execMapUpdate(v, st, reach)
	case *ssa.Send:
		g.execSend(v, st, reach)
	default:
		if val, ok := in.(ssa.Value); ok {
			g.havocVal(val)
		}
		g.note("unsupported instruction %T at %s: result havocked", in, g.where(in.Pos()))
	}
}

func fieldName(v *ssa.FieldAddr) string {
	pt := v.X.Type().Underlying().(*types.Pointer)
	return pt.Elem().Underlying().(*types.Struct).Field(v.Field).Name()
}

func (g *Gen) allocRef(v ssa.Value, st State) {
	a := g.stGet(st, "alloc", SMath)
	id := g.define(v.Name(), SMath, app("+", a, "1"))
	g.stSet(st, "alloc", SMath, id)
	g.vals[v] = T{S: id, So: SRef, GoT: v.Type()}
}

func (g *Gen) execAlloc(v *ssa.Alloc, st State) {
	et := v.Type().Underlying().(*types.Pointer).Elem()
	if g.isCellAlloc(v) {
		so := g.te.sortOf(et)
		name := g.cellName(v)
		g.stGet(st, name, so)
		g.stSet(st, name, so, g.te.zero(so))
		g.vals[v] = T{S: "0", So: SRef, GoT: v.Type()}
		return
	}
	g.allocRef(v, st)
	id := g.vals[v].S
	switch u := et.Underlying().(type) {
	case *types.Struct:
		for i := 0; i < u.NumFields(); i++ {
			f := u.Field(i)
			fso := g.te.sortOf(f.Type())
			hn := g.fieldHeapName(et, f.Name())
			hso := &Sort{K: KRaw, Name: "(Array Int " + fso.Name + ")"}
			h := g.stGet(st, hn, hso)
			g.stSet(st, hn, hso, app("store", h, id, g.te.zero(fso)))
		}
	case *types.Array:
		el := g.te.sortOf(u.Elem())
		hn := g.elemHeapName(u.Elem())
		hso := g.elemHeapSort(el)
		h := g.stGet(st, hn, hso)
		g.stSet(st, hn, hso, app("store", h, id, "((as const (Array Int "+el.Name+")) "+g.te.zero(el)+")"))
	}
}

func (g *Gen) execMakeSlice(v *ssa.MakeSlice, st State, reach string) {
	ln := g.toInt(g.val(v.Len))
	cp := g.toInt(g.val(v.Cap))
	g.safety("makeslice", "make: 0 <= len <= cap", v.Pos(), reach, and(app("<=", "0", ln), app("<=", ln, cp)))
	// an allocation that succeeds is below the platform limit (trusted: out-of-memory is not modelled)
	g.assume(app("=>", reach, app("<=", cp, "281474976710656")))
	a := g.stGet(st, "alloc", SMath)
	id := g.define(v.Name()+".obj", SMath, app("+", a, "1"))
	g.stSet(st, "alloc", SMath, id)
	el, elT := g.elemOf(v.Type())
	hn := g.elemHeapName(elT)
	hso := g.elemHeapSort(el)
	h := g.stGet(st, hn, hso)
	g.stSet(st, hn, hso, app("store", h, id, "((as const (Array Int "+el.Name+")) "+g.te.zero(el)+")"))
	g.setVal(v, app("mkslice", id, "0", ln, cp))
}

func (g *Gen) execSlice(v *ssa.Slice, st State, reach string) {
	x := g.val(v.X)
	lo := "0"
	if v.Low != nil {
		lo = g.toInt(g.val(v.Low))
	}
	switch x.So.K {
	case KSlice:
		hi := app("s_len", x.S)
		if v.High != nil {
			hi = g.toInt(g.val(v.High))
		}
		mx := app("s_cap", x.S)
		if v.Max != nil {
			mx = g.toInt(g.val(v.Max))
			g.safety("slice", "slice max in range", v.Pos(), reach, and(app("<=", hi, mx), app("<=", mx, app("s_cap", x.S))))
		}
		g.safety("slice", fmt.Sprintf("slice bounds of %s in range", v.X.Name()), v.Pos(), reach, and(app("<=", "0", lo), app("<=", lo, hi), app("<=", hi, mx)))
		g.setVal(v, app("mkslice", app("s_obj", x.S), app("+", app("s_off", x.S), lo), app("-", hi, lo), app("-", mx, lo)))
	case KStr:
		hi := app("slen", x.S)
		if v.High != nil {
			hi = g.toInt(g.val(v.High))
		}
		g.safety("slice", "string slice bounds in range", v.Pos(), reach, and(app("<=", "0", lo), app("<=", lo, hi), app("<=", hi, app("slen", x.S))))
		r := g.havocVal(v)
		g.assume(app("=", app("slen", r.S), app("-", hi, lo)))
		g.assume(fmt.Sprintf("(forall ((i!q Int)) (=> (and (<= 0 i!q) (< i!q (slen %s))) (= (select (sarr %s) i!q) (select (sarr %s) (+ i!q %s)))))", r.S, r.S, x.S, lo))
	case KRef:
		// pointer to array
		if pt, ok := v.X.Type().Underlying().(*types.Pointer); ok {
			if arr, ok := pt.Elem().Underlying().(*types.Array); ok {
				n := fmt.Sprint(arr.Len())
				hi := n
				if v.High != nil {
					hi = g.toInt(g.val(v.High))
				}
				g.safety("slice", "array slice bounds in range", v.Pos(), reach, and(app("<=", "0", lo), app("<=", lo, hi), app("<=", hi, n)))
				g.setVal(v, app("mkslice", x.S, lo, app("-", hi, lo), app("-", n, lo)))
				return
			}
		}
		g.havocVal(v)
	default:
		g.havocVal(v)
	}
}

func (g *Gen) execBinOp(v *ssa.BinOp, reach string) {
	x := g.val(v.X)
	y := g.val(v.Y)
	so := x.So
	isBV := so.K == KBV
	wrap := func(s string) string {
		if so.K == KInt && g.ct != nil && g.ct.NoWrap && so.W >= 32 {
			// prove that the exact result fits, then use it unwrapped
			rng := "in64"
			if so.W == 32 {
				rng = "in32"
			}
			exact := g.define(v.Name()+".exact", SMath, s)
			g.safety("overflow", "signed arithmetic does not overflow", v.Pos(), reach, app(rng, exact))
			return exact
		}
		if so.K == KInt {
			if so.W == 32 {
				return app("wrap32", s)
			}
			if so.W == 64 {
				return app("wrap64", s)
			}
		}
		return s
	}
	switch v.Op {
	case token.ADD:
		switch so.K {
		case KBV:
			g.setVal(v, app("bvadd", x.S, y.S))
		case KInt:
			g.setVal(v, wrap(app("+", x.S, y.S)))
		case KStr:
			r := g.havocVal(v)
			g.assume(app("=", app("slen", r.S), app("+", app("slen", x.S), app("slen", y.S))))
			g.assume(fmt.Sprintf("(forall ((i!q Int)) (=> (and (<= 0 i!q) (< i!q (slen %s))) (= (select (sarr %s) i!q) (select (sarr %s) i!q))))", x.S, r.S, x.S))
			g.assume(fmt.Sprintf("(forall ((i!q Int)) (=> (and (<= 0 i!q) (< i!q (slen %s))) (= (select (sarr %s) (+ (slen %s) i!q)) (select (sarr %s) i!q))))", y.S, r.S, x.S, y.S))
		case KReal:
			g.setVal(v, app("+", x.S, y.S))
		default:
			g.havocVal(v)
		}
	case token.SUB:
		if isBV {
			g.setVal(v, app("bvsub", x.S, y.S))
		} else if so.K == KReal {
			g.setVal(v, app("-", x.S, y.S))
		} else {
			g.setVal(v, wrap(app("-", x.S, y.S)))
		}
	case token.MUL:
		if isBV {
			g.setVal(v, app("bvmul", x.S, y.S))
		} else if so.K == KReal {
			g.setVal(v, app("*", x.S, y.S))
		} else {
			g.setVal(v, wrap(app("*", x.S, y.S)))
		}
	case token.QUO:
		if isBV {
			g.safety("div", "division by zero", v.Pos(), reach, not(app("=", y.S, bvLit(0, so.W))))
			g.setVal(v, app("bvudiv", x.S, y.S))
		} else if so.K == KReal {
			g.setVal(v, app("/", x.S, y.S))
		} else {
			g.safety("div", "division by zero", v.Pos(), reach, not(app("=", y.S, "0")))
			g.setVal(v, wrap(app("go_div", x.S, y.S)))
		}
	case token.REM:
		if isBV {
			g.safety("div", "modulo by zero", v.Pos(), reach, not(app("=", y.S, bvLit(0, so.W))))
			g.setVal(v, app("bvurem", x.S, y.S))
		} else {
			g.safety("div", "modulo by zero", v.Pos(), reach, not(app("=", y.S, "0")))
			g.setVal(v, app("go_mod", x.S, y.S))
		}
	case token.AND, token.OR, token.XOR, token.AND_NOT:
		if so.K == KBool {
			op := map[token.Token]string{token.AND: "and", token.OR: "or", token.XOR: "xor"}[v.Op]
			g.setVal(v, app(op, x.S, y.S))
		} else if isBV {
			switch v.Op {
			case token.AND:
				g.setVal(v, app("bvand", x.S, y.S))
			case token.OR:
				g.setVal(v, app("bvor", x.S, y.S))
			case token.XOR:
				g.setVal(v, app("bvxor", x.S, y.S))
			case token.AND_NOT:
				g.setVal(v, app("bvand", x.S, app("bvnot", y.S)))
			}
		} else {
			g.havocVal(v)
			g.note("bit operation on signed integer at %s: havocked", g.where(v.Pos()))
		}
	case token.SHL, token.SHR:
		if isBV {
			ys := y.S
			if y.So.K == KBV && y.So.W != so.W {
				ys = convertTerm(y.S, y.So, so)
			} else if y.So.K == KInt {
				ys = app(fmt.Sprintf("(_ int2bv %d)", so.W), y.S)
			}
			op := "bvshl"
			if v.Op == token.SHR {
				op = "bvlshr"
			}
			g.setVal(v, app(op, x.S, ys))
		} else {
			g.havocVal(v)
			g.note("shift on signed integer at %s: havocked", g.where(v.Pos()))
		}
	case token.EQL, token.NEQ:
		var eq string
		switch {
		case x.So.K == KStr:
			eq = app("str_eq", x.S, y.S)
		case x.So.K == KSlice:
			// only comparison with nil is legal Go
			if isNilConst(v.Y) {
				eq = app("=", app("s_obj", x.S), "0")
			} else {
				eq = app("=", app("s_obj", y.S), "0")
			}
		case x.So.K == KIface && y.So.K != KIface:
			eq = app("=", x.S, app("ibox", fmt.Sprint(g.te.tagOf(v.Y.Type())), y.S))
		default:
			eq = app("=", x.S, y.S)
		}
		if v.Op == token.NEQ {
			eq = not(eq)
		}
		g.setVal(v, eq)
	case token.LSS, token.LEQ, token.GTR, token.GEQ:
		ops := reArith[v.Op]
		switch so.K {
		case KBV:
			g.setVal(v, app(ops[1], x.S, y.S))
		case KInt, KReal:
			g.setVal(v, app(ops[0], x.S, y.S))
		case KStr:
			r := g.havocVal(v)
			_ = r
			g.note("string ordering at %s: havocked", g.where(v.Pos()))
		default:
			g.havocVal(v)
		}
	default:
		g.havocVal(v)
		g.note("unsupported binary operator %s at %s", v.Op, g.where(v.Pos()))
	}
}

func isNilConst(v ssa.Value) bool {
	c, ok := v.(*ssa.Const)
	return ok && c.Value == nil
}

func (g *Gen) execUnOp(v *ssa.UnOp, st State, reach string) {
	switch v.Op {
	case token.NOT:
		g.setVal(v, not(g.val(v.X).S))
	case token.SUB:
		x := g.val(v.X)
		if x.So.K == KBV {
			g.setVal(v, app("bvneg", x.S))
		} else if x.So.K == KInt {
			g.setVal(v, app("wrap64", app("-", x.S)))
		} else {
			g.setVal(v, app("-", x.S))
		}
	case token.XOR:
		x := g.val(v.X)
		if x.So.K == KBV {
			g.setVal(v, app("bvnot", x.S))
		} else {
			g.havocVal(v)
		}
	case token.MUL: // load
		lv := g.resolveAddr(v.X, st)
		if lv.kind == lvBad {
			// whole-struct load through a pointer: assemble from field heaps
			if t, ok := g.loadStruct(v.X, st, reach, v.Pos()); ok {
				g.setVal(v, t)
				return
			}
			g.havocVal(v)
			g.note("load through unsupported address %s at %s: havocked", v.X.Name(), g.where(v.Pos()))
			return
		}
		if lv.kind == lvDeref {
			g.safety("nil", "nil pointer dereference", v.Pos(), reach, not(app("=", lv.obj, "0")))
		}
		g.guardedAccess(lv, false, st, reach, v.Pos())
		t := g.setVal(v, g.lvLoad(lv, st))
		if cur, touched := st[lv.heap]; !touched || cur == "|"+lv.heap+"@in|" {
			// a location not assigned by this function refers to objects that existed at entry
			g.assumeTypeInv(t, State{})
		} else {
			g.assumeTypeInv(t, st)
		}
	case token.ARROW:
		g.execRecv(v, st, reach)
	default:
		g.havocVal(v)
	}
}

// loadStruct builds a struct value from the field heaps of a pointer-to-struct.
func (g *Gen) loadStruct(p ssa.Value, st State, reach string, pos token.Pos) (string, bool) {
	pt, ok := p.Type().Underlying().(*types.Pointer)
	if !ok {
		return "", false
	}
	stT, ok := pt.Elem().Underlying().(*types.Struct)
	if !ok {
		return "", false
	}
	base := g.val(p)
	g.safety("nil", "nil pointer dereference", pos, reach, not(app("=", base.S, "0")))
	so := g.te.sortOf(pt.Elem())
	parts := []string{so.Ctor}
	for i := 0; i < stT.NumFields(); i++ {
		f := stT.Field(i)
		fso := g.te.sortOf(f.Type())
		h := g.stGet(st, g.fieldHeapName(pt.Elem(), f.Name()), &Sort{K: KRaw, Name: "(Array Int " + fso.Name + ")"})
		parts = append(parts, app("select", h, base.S))
	}
	if len(parts) == 1 {
		return so.Ctor, true
	}
	return "(" + strings.Join(parts, " ") + ")", true
}

func (g *Gen) execConvert(v *ssa.Convert, st State) {
	x := g.val(v.X)
	to := g.te.sortOf(v.Type())
	switch {
	case (x.So.K == KInt || x.So.K == KBV) && (to.K == KInt || to.K == KBV):
		g.setVal(v, convertTerm(x.S, x.So, to))
	case x.So.K == KStr && to.K == KSlice:
		// []byte(s): fresh slice with the string's bytes
		a := g.stGet(st, "alloc", SMath)
		id := g.define(v.Name()+".obj", SMath, app("+", a, "1"))
		g.stSet(st, "alloc", SMath, id)
		hn := "E.uint8"
		hso := g.elemHeapSort(SBV8)
		h := g.stGet(st, hn, hso)
		g.stSet(st, hn, hso, app("store", h, id, app("sarr", x.S)))
		r := g.havocVal(v)
		g.assume(and(app("=", app("s_obj", r.S), id), app("=", app("s_off", r.S), "0"), app("=", app("s_len", r.S), app("slen", x.S)), app(">=", app("s_cap", r.S), app("slen", x.S))))
	case x.So.K == KSlice && to.K == KStr:
		h := g.stGet(st, "E.uint8", g.elemHeapSort(SBV8))
		r := g.havocVal(v)
		g.assume(app("=", app("slen", r.S), app("s_len", x.S)))
		g.assume(fmt.Sprintf("(forall ((i!q Int)) (=> (and (<= 0 i!q) (< i!q (s_len %s))) (= (select (sarr %s) i!q) (select (select %s (s_obj %s)) (+ (s_off %s) i!q)))))", x.S, r.S, h, x.S, x.S))
	case x.So.K == KBV && to.K == KStr:
		r := g.havocVal(v)
		if x.So.W == 8 {
			g.assume(and(app("=", app("slen", r.S), "1"), app("=", app("select", app("sarr", r.S), "0"), x.S)))
		}
	case x.So.K == KInt && to.K == KReal:
		g.setVal(v, app("to_real", x.S))
	case x.So.Name == to.Name:
		g.setVal(v, x.S)
	default:
		g.havocVal(v)
		g.note("unsupported conversion %s -> %s at %s: havocked", v.X.Type(), v.Type(), g.where(v.Pos()))
	}
}

func (g *Gen) execTypeAssert(v *ssa.TypeAssert, st State, reach string) {
	x := g.val(v.X)
	_, toIface := v.AssertedType.Underlying().(*types.Interface)
	vso := g.te.sortOf(v.AssertedType)
	var ok, val string
	if toIface {
		okc := g.fresh(v.Name()+".ok", SBool)
		g.assume(app("=>", okc, not(app("=", x.S, "inil"))))
		ok = okc
		val = x.S
	} else {
		tag := g.te.tagOf(v.AssertedType)
		ok = and(not(app("=", x.S, "inil")), app("=", app("itag", x.S), fmt.Sprint(tag)))
		switch vso.K {
		case KRef, KInt:
			val = app("ite", ok, app("iptr", x.S), g.te.zero(vso))
		case KBV:
			val = app("ite", ok, app(fmt.Sprintf("(_ int2bv %d)", vso.W), app("iptr", x.S)), g.te.zero(vso))
		default:
			val = g.fresh(v.Name()+".val", vso)
		}
	}
	if v.CommaOk {
		okT := T{S: g.define(v.Name()+".ok", SBool, ok), So: SBool}
		vT := T{S: g.define(v.Name()+".v", vso, val), So: vso, GoT: v.AssertedType}
		if toIface {
			vT.So = SIface
		}
		g.assumeTypeInv(vT, st)
		g.tuples[v] = []T{vT, okT}
		return
	}
	g.safety("typeassert", fmt.Sprintf("type assertion to %s succeeds", v.AssertedType), v.Pos(), reach, ok)
	t := g.setVal(v, val)
	g.assumeTypeInv(t, st)
}

func (g *Gen) havocAllHeaps(st State) {
	for n, so := range g.stSorts {
		if strings.HasPrefix(n, "F.") || strings.HasPrefix(n, "E.") || strings.HasPrefix(n, "P.") || strings.HasPrefix(n, "M.") {
			g.stHavoc(st, n, so)
		}
	}
	// make sure heaps touched later in the function are also considered modified here:
	// they are unknown to this pass only in the dry run, which records the wildcard
	if g.curMods != nil {
		g.curMods["*"] = SBool
	}
	g.recordWrite("*", nil)
}

func (g *Gen) execReturn(v *ssa.Return, st State, reach string) {
	if g.inl != nil {
		// a return of a helper executed in place: record where it ends, the caller merges
		var vs []T
		for _, r := range v.Results {
			vs = append(vs, g.val(r))
		}
		g.inl.rets = append(g.inl.rets, inlRet{reach: reach, st: copyState(st), vals: vs})
		return
	}
	if g.ct == nil || g.dry {
		return
	}
	vars := map[string]T{}
	for k, t := range g.paramEnv {
		vars[k] = t
	}
	res := g.fn.Signature.Results()
	for i, r := range v.Results {
		t := g.val(r)
		vars[fmt.Sprintf("result%d", i)] = t
		if i == 0 {
			vars["result"] = t
		}
		if n := res.At(i).Name(); n != "" && n != "_" {
			vars[n] = t
		}
		if i < len(g.ct.Results) {
			vars[g.ct.Results[i]] = t
		}
	}
	g.bindLets(g.ct, vars, st, g.entryState())
	for i, c := range g.ct.Ensures {
		if !c.active(g.prog.curProp) {
			continue
		}
		if c.Free {
			g.assumed["trusted postcondition (assume_ensures) of "+funcDisplayName(g.fn)+": "+c.Text] = true
			continue
		}
		env := g.envAt(st, g.entryState(), g.pkg, vars)
		env.inGoal = true
		t := env.compileBool(c.Expr)
		if g.reportSpecErrors(env, c) {
			t.S = "false" // a stale postcondition cannot be established: it fails, by name
		}
		label := c.Label
		if label == "" {
			label = fmt.Sprint(i)
		}
		g.newObligation("post", label, "ensures "+c.Text+"  [return at "+g.where(v.Pos())+"]", c.Where, app("=>", reach, t.S))
	}
	g.checkFrame(st, reach, v.Pos())
	g.newCover("cover", fmt.Sprintf("return@%d", v.Block().Index), "return at "+g.where(v.Pos())+" is reachable", g.where(v.Pos()), reach)
}

// checkFrame: every state component changed by the body is declared in modifies, or is
// written only through objects allocated by this very call (decided on the SSA: the base of
// every recorded write is an allocation), or -- failing that -- is proved unchanged on the
// objects that existed at entry (an SMT obligation).
func (g *Gen) checkFrame(st State, reach string, pos token.Pos) {
	if g.ct == nil {
		return
	}
	allowed := g.modSet(g.ct, g.pkg)
	if allowed["*"] {
		return
	}
	a0 := g.stGet(State{}, "alloc", SMath)
	for _, n := range sortedKeys(st) {
		cur := st[n]
		init := g.stGet(State{}, n, g.stSorts[n])
		if cur == init || allowed[n] || n == "alloc" {
			continue
		}
		if strings.HasPrefix(n, "C.") || strings.HasPrefix(n, "L.") {
			continue
		}
		if gv, ok := g.cs.Ghosts[strings.TrimPrefix(n, "ghost.")]; ok && strings.HasPrefix(n, "ghost.") && gv.Scratch {
			continue
		}
		if g.interfered[n] && !g.writtenByUs(n) {
			continue // changed only by the monitor's interference model, never by this function
		}
		if g.writesOnlyFresh(n) {
			g.frameStructural[n] = true
			continue
		}
		var goal string
		switch {
		case strings.HasPrefix(n, "F.") || strings.HasPrefix(n, "E.") || strings.HasPrefix(n, "P."):
			goal = fmt.Sprintf("(forall ((o!q Int)) (=> (and (<= 0 o!q) (<= o!q %s)) (= (select %s o!q) (select %s o!q))))", a0, cur, init)
		default:
			goal = app("=", cur, init)
		}
		g.newObligation("frame", n, "frame: "+n+" is not in modifies and is unchanged on pre-existing objects", g.where(pos), app("=>", reach, goal))
	}
}

// writesOnlyFresh: every write to heap n recorded in the function goes through a base value
// that is an allocation performed by this function.
func (g *Gen) writesOnlyFresh(n string) bool {
	found := false
	for _, ws := range g.writeLog {
		for _, w := range ws {
			if w.heap == "*" {
				return false
			}
			if w.heap != n {
				continue
			}
			found = true
			if w.base == nil || !isFreshValue(w.base, 0) {
				return false
			}
		}
	}
	return found
}

func isFreshValue(v ssa.Value, depth int) bool {
	if depth > 6 {
		return false
	}
	switch x := v.(type) {
	case *ssa.Alloc, *ssa.MakeSlice, *ssa.MakeMap, *ssa.MakeChan, *ssa.MakeClosure:
		return true
	case *ssa.Slice:
		return isFreshValue(x.X, depth+1)
	case *ssa.ChangeType:
		return isFreshValue(x.X, depth+1)
	case *ssa.Phi:
		for _, e := range x.Edges {
			if !isFreshValue(e, depth+1) {
				return false
			}
		}
		return true
	}
	return false
}

// storeStruct: *p = v for a pointer to struct p: every field heap is updated at p.
func (g *Gen) storeStruct(v *ssa.Store, st State, reach string) bool {
	pt, ok := v.Addr.Type().Underlying().(*types.Pointer)
	if !ok {
		return false
	}
	stT, ok := pt.Elem().Underlying().(*types.Struct)
	if !ok {
		return false
	}
	base := g.val(v.Addr)
	val := g.val(v.Val)
	if val.So.K != KData {
		return false
	}
	if _, isAlloc := v.Addr.(*ssa.Alloc); !isAlloc {
		g.safety("nil", "nil pointer dereference", v.Pos(), reach, not(app("=", base.S, "0")))
	}
	for i := 0; i < stT.NumFields(); i++ {
		f := stT.Field(i)
		fso := g.te.sortOf(f.Type())
		hn := g.fieldHeapName(pt.Elem(), f.Name())
		hso := &Sort{K: KRaw, Name: "(Array Int " + fso.Name + ")"}
		h := g.stGet(st, hn, hso)
		g.recordWrite(hn, v.Addr)
		g.stSet(st, hn, hso, app("store", h, base.S, app(val.So.Fields[i].Acc, val.S)))
	}
	return true
}

// guardedAccess: a field declared guarded by its owner's lock is read with the lock held
// (any mode) and written with the write lock held. Objects allocated by this very call are
// not yet shared and are exempt.
func (g *Gen) guardedAccess(lv LV, write bool, st State, reach string, pos token.Pos) {
	if lv.kind != lvField || !g.prog.guarded[lv.heap] {
		return
	}
	if lv.base != nil && isFreshValue(lv.base, 0) {
		return
	}
	h := g.stGet(st, "L.held", &Sort{K: KRaw, Name: "(Array Int Int)"})
	cond := app(">=", app("select", h, lv.obj), "1")
	what := "read"
	if write {
		cond = app("=", app("select", h, lv.obj), "2")
		what = "write"
	}
	g.newObligation("lockset."+what, strings.TrimPrefix(lv.heap, "F."), what+" of guarded field "+strings.TrimPrefix(lv.heap, "F.")+" with its lock held", g.where(pos), app("=>", reach, cond))
}

// writtenByUs: the function itself has a recorded write to heap n (through a known base).
func (g *Gen) writtenByUs(n string) bool {
	for _, ws := range g.writeLog {
		for _, w := range ws {
			if (w.heap == n || w.heap == "*") && !(w.base == nil && g.interfered[n]) {
				return true
			}
		}
	}
	return false
}

func (g *Gen) noSafetyHere() bool {
	if len(g.ct.NoSafetyProps) == 0 {
		return true
	}
	for _, p := range g.ct.NoSafetyProps {
		if p == g.prog.curProp {
			return true
		}
	}
	return false
}
