package main

import (
	"bytes"
	"context"
	"encoding/json"
	"fmt"
	"go/ast"
	"go/token"
	"go/types"
	"os"
	"os/exec"
	"path/filepath"
	"regexp"
	"strconv"
	"strings"
	"time"
)

const replayWindow = 48 // bytes of each []byte parameter read back from the model

// replayTerms lists extra model terms needed to rebuild the inputs of g.fn.
func (g *Gen) replayTerms() []ModelVar {
	var out []ModelVar
	for _, mv := range g.modelVars {
		out = append(out, mv)
		if mv.Sort.K == KSlice && (mv.GoT == "[]byte" || mv.GoT == "[]uint8") {
			h := "|E.uint8@in|"
			if !g.declared[h] {
				continue
			}
			for j := 0; j < replayWindow; j++ {
				out = append(out, ModelVar{Name: fmt.Sprintf("%s[%d]", mv.Name, j), Term: fmt.Sprintf("(select (select %s (s_obj %s)) (+ (s_off %s) %d))", h, mv.Term, mv.Term, j), Sort: SBV8})
				out = append(out, ModelVar{Name: fmt.Sprintf("%s[-%d]", mv.Name, j+1), Term: fmt.Sprintf("(select (select %s (s_obj %s)) (+ (s_off %s) (- (s_len %s) %d)))", h, mv.Term, mv.Term, mv.Term, j+1), Sort: SBV8})
			}
		}
		if mv.Sort.K == KStr {
			for j := 0; j < replayWindow; j++ {
				out = append(out, ModelVar{Name: fmt.Sprintf("%s[%d]", mv.Name, j), Term: fmt.Sprintf("(select (sarr %s) %d)", mv.Term, j), Sort: SBV8})
			}
			out = append(out, ModelVar{Name: mv.Name + ".len", Term: "(slen " + mv.Term + ")", Sort: SMath})
		}
	}
	return out
}

// parseModelValues parses the "((term value) ...)" answer of get-value positionally.
func parseModelValues(out string, n int) []string {
	out = strings.TrimSpace(out)
	if !strings.HasPrefix(out, "(") {
		return nil
	}
	ch := sexpChildren(out)
	var vals []string
	for _, c := range ch {
		pc := sexpChildren(c)
		if len(pc) != 2 {
			return nil
		}
		vals = append(vals, pc[1])
	}
	if len(vals) != n {
		return nil
	}
	return vals
}

func smtInt(v string) (int64, bool) {
	v = strings.TrimSpace(v)
	if strings.HasPrefix(v, "(-") {
		n, err := strconv.ParseInt(strings.TrimSpace(strings.Trim(v, "()-")), 10, 64)
		return -n, err == nil
	}
	n, err := strconv.ParseInt(v, 10, 64)
	return n, err == nil
}

func smtBV(v string) (uint64, bool) {
	v = strings.TrimSpace(v)
	if strings.HasPrefix(v, "#x") {
		n, err := strconv.ParseUint(v[2:], 16, 64)
		return n, err == nil
	}
	if strings.HasPrefix(v, "#b") {
		n, err := strconv.ParseUint(v[2:], 2, 64)
		return n, err == nil
	}
	return 0, false
}

// goOracle compiles a contract expression to Go source. ok=false when a construct has no
// executable rendering (fresh, object identity, ghost state ...).
type goOracle struct {
	g      *Gen
	olds   map[string]string // expression text -> snapshot variable
	bound  map[string]bool
	ok     bool
	reason string
	maxLen string
}

func (o *goOracle) bad(why string) string {
	if o.ok {
		o.ok = false
		o.reason = why
	}
	return "true"
}

var specGoFuncs = map[string]bool{"bytes_eq": true, "is_enc": true, "be64_of": true, "lexlt": true, "has_prefix": true, "bytes_contains": true, "in_alphabet": true, "bytes_cmp": true, "has_suffix": true}

func (o *goOracle) expr(x ast.Expr) string {
	switch v := x.(type) {
	case *ast.ParenExpr:
		return "(" + o.expr(v.X) + ")"
	case *ast.BasicLit:
		return v.Value
	case *ast.Ident:
		if v.Name == "MaxUint64" {
			return "uint64(math.MaxUint64)"
		}
		return v.Name
	case *ast.UnaryExpr:
		return v.Op.String() + o.expr(v.X)
	case *ast.BinaryExpr:
		return "(" + o.expr(v.X) + " " + v.Op.String() + " " + o.expr(v.Y) + ")"
	case *ast.IndexExpr:
		return o.expr(v.X) + "[" + o.expr(v.Index) + "]"
	case *ast.SliceExpr:
		lo, hi := "", ""
		if v.Low != nil {
			lo = o.expr(v.Low)
		}
		if v.High != nil {
			hi = o.expr(v.High)
		}
		return o.expr(v.X) + "[" + lo + ":" + hi + "]"
	case *ast.SelectorExpr:
		if id, ok := v.X.(*ast.Ident); ok {
			if _, isParam := o.g.paramEnv[id.Name]; !isParam {
				return id.Name + "." + v.Sel.Name
			}
		}
		switch v.Sel.Name {
		case "obj", "off", "cap":
			return o.bad("object identity (" + exprString(v) + ") is not observable by a test")
		}
		return o.expr(v.X) + "." + v.Sel.Name
	case *ast.CallExpr:
		fn, ok := v.Fun.(*ast.Ident)
		if !ok {
			return o.bad("unsupported call")
		}
		switch fn.Name {
		case "old":
			key := exprString(v.Args[0])
			// old(e) with bound variables inside: snapshot the base slices instead
			inner := o.exprOld(v.Args[0])
			_ = key
			return inner
		case "len", "cap", "uint64", "int", "int64", "byte", "uint32", "uint8", "int32":
			return fn.Name + "(" + o.expr(v.Args[0]) + ")"
		case "implies":
			return "(!(" + o.expr(v.Args[0]) + ") || (" + o.expr(v.Args[1]) + "))"
		case "iff":
			return "((" + o.expr(v.Args[0]) + ") == (" + o.expr(v.Args[1]) + "))"
		case "ite":
			return "func() " + "interface{}" + " { if " + o.expr(v.Args[0]) + " { return " + o.expr(v.Args[1]) + " }; return " + o.expr(v.Args[2]) + " }()"
		case "fresh":
			return "true /* fresh: not observable */"
		case "is_nil":
			return "(" + o.expr(v.Args[0]) + " == nil)"
		case "forall", "exists":
			id, ok := v.Args[0].(*ast.Ident)
			if !ok {
				return o.bad("quantifier over a non-integer variable")
			}
			o.bound[id.Name] = true
			var cond, body string
			if len(v.Args) >= 3 {
				cond, body = o.expr(v.Args[1]), o.expr(v.Args[2])
			} else {
				cond, body = "true", o.expr(v.Args[1])
			}
			if fn.Name == "forall" {
				return fmt.Sprintf("func() bool { for %s := -2; %s <= kbvMaxLen+2; %s++ { if %s { if !(%s) { return false } } }; return true }()", id.Name, id.Name, id.Name, cond, body)
			}
			return fmt.Sprintf("func() bool { for %s := -2; %s <= kbvMaxLen+2; %s++ { if %s { if %s { return true } } }; return false }()", id.Name, id.Name, id.Name, cond, body)
		}
		if specGoFuncs[fn.Name] {
			var args []string
			for _, a := range v.Args {
				args = append(args, o.expr(a))
			}
			return "spec_" + fn.Name + "(" + strings.Join(args, ", ") + ")"
		}
		return o.bad("spec function " + fn.Name + " has no executable rendering")
	}
	return o.bad("unsupported expression")
}

// exprOld renders e evaluated in the pre-state: parameters of slice type are replaced by
// their snapshots (taken before the call).
func (o *goOracle) exprOld(x ast.Expr) string {
	s := o.expr(x)
	for name, t := range o.g.paramEnv {
		if t.So.K == KSlice {
			s = regexp.MustCompile(`\b`+regexp.QuoteMeta(name)+`\b`).ReplaceAllString(s, "old_"+name)
		}
	}
	return s
}

// replayModel builds an in-package test from the model, runs it against the real code with
// go test -overlay, and reports whether the violation was reproduced.
func replayModel(prog *Program, prop string, r *oblResult, name string) (bool, string) {
	g := r.G
	fn := g.fn
	if fn == nil || fn.Pkg == nil {
		return false, "no function"
	}
	terms := g.replayTerms()
	vals := parseModelValues(r.Res.Model, len(terms))
	if vals == nil {
		return false, "the solver's model could not be parsed (" + r.Res.Solver + ")"
	}
	mv := map[string]string{}
	for i, t := range terms {
		mv[t.Name] = vals[i]
	}
	// receiver / parameters
	var decls []string
	var args []string
	recvExpr := ""
	maxLen := 0
	for i, p := range fn.Params {
		pt := p.Type()
		if i == 0 && fn.Signature.Recv() != nil {
			ptr, ok := pt.Underlying().(*types.Pointer)
			if !ok {
				return false, "receiver shape not supported by the replay generator"
			}
			st, ok := ptr.Elem().Underlying().(*types.Struct)
			if !ok || st.NumFields() != 0 {
				return false, "receiver has state; the replay generator only rebuilds stateless receivers"
			}
			recvExpr = "(&" + types.TypeString(ptr.Elem(), func(*types.Package) string { return "" }) + "{})"
			continue
		}
		pname := p.Name()
		if pname == "" || pname == "_" {
			pname = fmt.Sprintf("p%d", i)
		}
		v := mv[p.Name()]
		switch u := pt.Underlying().(type) {
		case *types.Slice:
			if b, ok := u.Elem().Underlying().(*types.Basic); !ok || b.Kind() != types.Uint8 {
				return false, "parameter " + pname + " has a slice type the replay generator does not rebuild"
			}
			ch := sexpChildren(v)
			if len(ch) != 5 {
				return false, "slice model value not understood: " + v
			}
			obj, _ := smtInt(ch[1])
			ln, _ := smtInt(ch[3])
			if obj == 0 {
				decls = append(decls, fmt.Sprintf("var %s []byte", pname))
				break
			}
			if ln > 1<<16 {
				return false, fmt.Sprintf("model needs a %d-byte input; skipped", ln)
			}
			var bs []string
			for j := int64(0); j < ln; j++ {
				b := uint64(0)
				if j < replayWindow {
					b, _ = smtBV(mv[fmt.Sprintf("%s[%d]", p.Name(), j)])
				} else if ln-j <= replayWindow {
					b, _ = smtBV(mv[fmt.Sprintf("%s[-%d]", p.Name(), ln-j)])
				}
				bs = append(bs, fmt.Sprintf("0x%02x", b))
			}
			if int(ln) > maxLen {
				maxLen = int(ln)
			}
			decls = append(decls, fmt.Sprintf("%s := []byte{%s}", pname, strings.Join(bs, ", ")))
		case *types.Basic:
			switch {
			case u.Info()&types.IsUnsigned != 0:
				n, ok := smtBV(v)
				if !ok {
					return false, "value of " + pname + " not understood: " + v
				}
				decls = append(decls, fmt.Sprintf("%s := %s(%d)", pname, types.TypeString(pt, func(*types.Package) string { return "" }), n))
			case u.Info()&types.IsInteger != 0:
				n, ok := smtInt(v)
				if !ok {
					return false, "value of " + pname + " not understood: " + v
				}
				decls = append(decls, fmt.Sprintf("%s := %s(%d)", pname, types.TypeString(pt, func(*types.Package) string { return "" }), n))
			case u.Kind() == types.Bool:
				decls = append(decls, fmt.Sprintf("%s := %s", pname, v))
			case u.Kind() == types.String:
				ln, _ := smtInt(mv[p.Name()+".len"])
				if ln > 1<<16 {
					return false, "string too long"
				}
				var bs []string
				for j := int64(0); j < ln; j++ {
					b := uint64(0)
					if j < replayWindow {
						b, _ = smtBV(mv[fmt.Sprintf("%s[%d]", p.Name(), j)])
					}
					bs = append(bs, fmt.Sprintf("0x%02x", b))
				}
				if int(ln) > maxLen {
					maxLen = int(ln)
				}
				decls = append(decls, fmt.Sprintf("%s := string([]byte{%s})", pname, strings.Join(bs, ", ")))
			default:
				return false, "parameter " + pname + " has a type the replay generator does not rebuild"
			}
		default:
			return false, "parameter " + pname + " (" + pt.String() + ") is not rebuilt by the replay generator"
		}
		args = append(args, pname)
		if t, ok := g.paramEnv[p.Name()]; ok && t.So.K == KSlice {
			decls = append(decls, fmt.Sprintf("old_%s := append([]byte(nil), %s...); _ = old_%s", pname, pname, pname))
		}
	}
	// contract parameter aliases
	if g.ct != nil {
		off := 0
		if fn.Signature.Recv() != nil {
			off = 1
		}
		for i, n := range g.ct.Params {
			if off+i < len(fn.Params) && fn.Params[off+i].Name() != n {
				decls = append(decls, fmt.Sprintf("%s := %s; _ = %s", n, fn.Params[off+i].Name(), n))
				if g.paramEnv[n].So.K == KSlice {
					decls = append(decls, fmt.Sprintf("old_%s := old_%s; _ = old_%s", n, fn.Params[off+i].Name(), n))
				}
			}
		}
	}
	// call
	res := fn.Signature.Results()
	var resNames []string
	for i := 0; i < res.Len(); i++ {
		resNames = append(resNames, fmt.Sprintf("result%d", i))
	}
	call := fn.Name() + "(" + strings.Join(args, ", ") + ")"
	if recvExpr != "" {
		call = recvExpr + "." + call
	}
	var body bytes.Buffer
	for _, d := range decls {
		body.WriteString("\t" + d + "\n")
	}
	fmt.Fprintf(&body, "\tkbvMaxLen := %d; _ = kbvMaxLen\n", maxLen+16)
	isSafety := strings.HasPrefix(r.O.Kind, "safety")
	body.WriteString("\tdefer func() {\n\t\tif p := recover(); p != nil {\n")
	if isSafety {
		body.WriteString("\t\t\tt.Fatalf(\"KBV-REPRODUCED: the real function panicked on the verifier's input: %v\", p)\n")
	} else {
		body.WriteString("\t\t\tt.Fatalf(\"KBV-REPRODUCED: the real function panicked on the verifier's input (the contract does not allow it): %v\", p)\n")
	}
	body.WriteString("\t\t}\n\t}()\n")
	if len(resNames) > 0 {
		body.WriteString("\t" + strings.Join(resNames, ", ") + " := " + call + "\n")
		for _, rn := range resNames {
			body.WriteString("\t_ = " + rn + "\n")
		}
	} else {
		body.WriteString("\t" + call + "\n")
	}
	if !isSafety {
		if r.O.Kind != "post" || g.ct == nil {
			return false, "obligation kind " + r.O.Kind + " has no executable oracle (not a postcondition of a callable function)"
		}
		// bind result names
		if len(resNames) > 0 {
			body.WriteString("\tresult := result0; _ = result\n")
		}
		for i := 0; i < res.Len(); i++ {
			if n := res.At(i).Name(); n != "" && n != "_" && n != fmt.Sprintf("result%d", i) {
				fmt.Fprintf(&body, "\t%s := result%d; _ = %s\n", n, i, n)
			}
			if i < len(g.ct.Results) {
				n := g.ct.Results[i]
				if n != res.At(i).Name() && n != "result" {
					fmt.Fprintf(&body, "\t%s := result%d; _ = %s\n", n, i, n)
				}
			}
		}
		var clause *Clause
		label := strings.TrimPrefix(r.O.Name[strings.LastIndex(r.O.Name, ":")+1:], "post.")
		if i := strings.Index(label, "#"); i >= 0 {
			label = label[:i]
		}
		for i := range g.ct.Ensures {
			c := &g.ct.Ensures[i]
			if c.Label == label || (c.Label == "" && fmt.Sprint(i) == label) {
				clause = c
			}
		}
		if clause == nil {
			return false, "clause not found"
		}
		o := &goOracle{g: g, olds: map[string]string{}, bound: map[string]bool{}, ok: true}
		src := o.expr(clause.Expr)
		if !o.ok {
			return false, "the failing clause cannot be evaluated by a test: " + o.reason
		}
		fmt.Fprintf(&body, "\tif !(%s) {\n\t\tt.Fatalf(\"KBV-REPRODUCED: postcondition %%q is false on the verifier's input\", %q)\n\t}\n", src, clause.Text)
	}
	body.WriteString("\tt.Log(\"KBV-NOT-REPRODUCED\")\n")

	// assemble the overlay
	pkgDir := ""
	pkgName := fn.Pkg.Pkg.Name()
	for _, pk := range prog.pkgs {
		if pk.PkgPath == fn.Pkg.Pkg.Path() && len(pk.GoFiles) > 0 {
			pkgDir = filepath.Dir(pk.GoFiles[0])
		}
	}
	if pkgDir == "" {
		return false, "package directory not found"
	}
	specGo, err := os.ReadFile(filepath.Join(verifDir, "spec", "specfuncs.go.txt"))
	if err != nil {
		return false, "spec function renderings missing"
	}
	test := fmt.Sprintf("package %s\n\nimport (\n\t\"math\"\n\t\"testing\"\n)\n\nvar _ = math.MaxInt8\n\nfunc TestKbvReplay(t *testing.T) {\n%s}\n\n%s\n", pkgName, body.String(), string(specGo))
	rdir := filepath.Join(verifDir, "replays", prop)
	testPath := filepath.Join(rdir, name+"_test.go.txt")
	_ = os.WriteFile(testPath, []byte(test), 0o644)
	ov := map[string]map[string]string{"Replace": {filepath.Join(pkgDir, "zz_kbv_replay_test.go"): testPath}}
	ovb, _ := json.Marshal(ov)
	ovPath := filepath.Join(rdir, name+".overlay.json")
	_ = os.WriteFile(ovPath, ovb, 0o644)
	ctx, cancel := context.WithTimeout(context.Background(), 180*time.Second)
	defer cancel()
	cmd := exec.CommandContext(ctx, "go", "test", "-overlay", ovPath, "-vet=off", "-count=1", "-timeout", "60s", "-run", "^TestKbvReplay$", "-v", ".")
	cmd.Dir = pkgDir
	cmd.Env = append(os.Environ(), "GOFLAGS=-mod=mod", "GOPROXY=off", "GOSUMDB=off", "GOTOOLCHAIN=local")
	out, _ := cmd.CombinedOutput()
	log := fmt.Sprintf("replay test: %s\ncommand: (cd %s && go test -overlay %s -vet=off -count=1 -timeout 60s -run '^TestKbvReplay$' -v .)\n%s", testPath, pkgDir, ovPath, string(out))
	if strings.Contains(string(out), "KBV-REPRODUCED") {
		return true, log
	}
	return false, log
}

var _ = token.ADD
