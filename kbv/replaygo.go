package main

// replayModel turns a solver model into a run of the real function. Implemented in replay_go.go
// for the supported parameter shapes; returns (reproduced, log).
func replayModel(prog *Program, prop string, r *oblResult, name string) (bool, string) {
	return false, "no replay generator for this function shape; the model above is the verifier's counterexample"
}
