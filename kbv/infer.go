package main

import (
	"go/types"
	"strings"

	"golang.org/x/tools/go/ssa"
)

// inferMods computes a syntactic over-approximation of the heap components a function of the
// loaded program may write (transitively through callees with bodies). "*" means unknown.
// Ghost state is changed only through contracts, so it appears only via callee contracts.
func (g *Gen) inferMods(fn *ssa.Function, stack map[*ssa.Function]bool) map[string]bool {
	if m, ok := g.prog.modCache[fn]; ok {
		return m
	}
	out := map[string]bool{}
	if stack[fn] {
		return out // recursion: the outer activation accounts for the body
	}
	if fn.Blocks == nil || len(stack) > 12 {
		out["*"] = true
		g.prog.modWhy["depth/no body: "+fn.String()] = true
		return out
	}
	stack[fn] = true
	defer delete(stack, fn)
	add := func(m map[string]bool) {
		for k := range m {
			out[k] = true
		}
	}
	for _, b := range fn.Blocks {
		for _, in := range b.Instrs {
			switch v := in.(type) {
			case *ssa.Store:
				if isFreshValue(addrRoot(v.Addr), 0) {
					// a write into an object this very call allocated (the argument array of a
					// variadic logging call, a struct under construction): no object that
					// existed before the call changes, which is all a frame promises
					continue
				}
				h := g.heapOfAddr(v.Addr)
				if h == "*" {
					g.prog.modWhy["store in "+fn.String()+" through "+v.Addr.String()] = true
				}
				out[h] = true
			case *ssa.MapUpdate:
				if mt, ok := v.Map.Type().Underlying().(*types.Map); ok {
					vn, _, dn, _, _, _ := g.mapHeap(mt)
					out[vn], out[dn] = true, true
				}
			case *ssa.Send:
				if _, ok := g.cs.Ghosts["chan_len"]; ok {
					out["ghost.chan_len"] = true
				}
				if _, ok := g.cs.Ghosts["chan_log"]; ok {
					out["ghost.chan_log"] = true
				}
				for _, gn := range []string{"chan_sobj", "chan_soff", "chan_slen"} {
					if _, ok := g.cs.Ghosts[gn]; ok {
						out["ghost."+gn] = true
					}
				}
			case *ssa.Call:
				add(g.callMods(&v.Call, stack))
			case *ssa.Defer:
				add(g.callMods(&v.Call, stack))
			case *ssa.Go:
				// spawned work may complete before this function returns
				add(g.callMods(&v.Call, stack))
			}
		}
	}
	delete(out, "")
	if len(stack) == 1 {
		g.prog.modCache[fn] = out
	}
	return out
}

func (g *Gen) callMods(c *ssa.CallCommon, stack map[*ssa.Function]bool) map[string]bool {
	out := map[string]bool{}
	if b, ok := c.Value.(*ssa.Builtin); ok {
		switch b.Name() {
		case "append", "copy":
			if _, elT := g.elemOf(c.Args[0].Type()); elT != nil {
				out[g.elemHeapName(elT)] = true
			}
		case "close":
			if _, ok := g.cs.Ghosts["chan_closed"]; ok {
				out["ghost.chan_closed"] = true
			}
		case "delete":
			if mt, ok := c.Args[0].Type().Underlying().(*types.Map); ok {
				_, _, dn, _, _, _ := g.mapHeap(mt)
				out[dn] = true
			}
		}
		return out
	}
	name := calleeName(c)
	switch {
	case strings.HasPrefix(name, "sync/atomic.") || strings.HasPrefix(name, "(*sync/atomic.Value)."):
		if len(c.Args) > 0 {
			out[g.heapOfAddr(c.Args[0])] = true
		}
		if ct, _ := g.contractOfCall(c); ct != nil && ct.GhostOnly {
			for k := range g.modSet(ct, g.pkg) {
				out[k] = true
			}
		}
		return out
	case name == "sort.Slice":
		if _, elT := g.elemOf(sliceTypeOfIface(c.Args[0])); elT != nil {
			out[g.elemHeapName(elT)] = true
			return out
		}
		out["*"] = true
		return out
	case name == "(encoding/binary.bigEndian).PutUint64":
		out["E.uint8"] = true
		return out
	case strings.HasPrefix(name, "(*sync.") || strings.HasPrefix(name, "bytes.") || strings.HasPrefix(name, "strings.") || strings.HasPrefix(name, "errors.") ||
		name == "(encoding/binary.bigEndian).Uint64" || name == "sort.Search" || name == "github.com/pkg/errors.Is":
		return out
	}
	if ct, _ := g.contractOfCall(c); ct != nil {
		for k := range g.modSet(ct, g.pkg) {
			out[k] = true
		}
		return out
	}
	if isEffectFree(name) || isNilSafeGetter(name) || returnsNonNilError(name) {
		return out
	}
	if name == "encoding/json.Unmarshal" && len(c.Args) == 2 {
		if mi, ok := c.Args[1].(*ssa.MakeInterface); ok {
			if pt, ok := mi.X.Type().Underlying().(*types.Pointer); ok {
				if a, isAlloc := mi.X.(*ssa.Alloc); !isAlloc || !g.isCellAlloc(a) {
					out["*struct:"+typeKey(pt.Elem())] = true
				}
				return out
			}
		}
	}
	if c.IsInvoke() {
		if c.Method.Name() == "Error" || c.Method.Name() == "String" {
			return out
		}
		out["*"] = true
		g.prog.modWhy[name] = true
		return out
	}
	var fn *ssa.Function
	switch f := c.Value.(type) {
	case *ssa.Function:
		fn = f
	case *ssa.MakeClosure:
		fn = f.Fn.(*ssa.Function)
	}
	if fn == nil || fn.Blocks == nil {
		if fn != nil && fn.Name() == "init" {
			return out
		}
		// an external function that is handed closures of ours: it can affect the tracked
		// state only by running them (trusted: external code holds no other reference)
		if fn != nil && externalWithClosures(c) {
			for _, a := range c.Args {
				if mc := asClosure(a); mc != nil {
					for k := range g.inferMods(mc.Fn.(*ssa.Function), stack) {
						out[k] = true
					}
				}
			}
			return out
		}
		out["*"] = true
		g.prog.modWhy[name] = true
		return out
	}
	return g.inferMods(fn, stack)
}

// addrRoot: the value an address expression is computed from (through field and element selection).
func addrRoot(a ssa.Value) ssa.Value {
	for {
		switch v := a.(type) {
		case *ssa.FieldAddr:
			a = v.X
		case *ssa.IndexAddr:
			a = v.X
		default:
			return a
		}
	}
}

// heapOfAddr names the heap component an address expression points into ("" for locals).
func (g *Gen) heapOfAddr(a ssa.Value) string {
	switch v := a.(type) {
	case *ssa.FieldAddr:
		switch x := v.X.(type) {
		case *ssa.FieldAddr, *ssa.IndexAddr:
			return g.heapOfAddr(x)
		case *ssa.Alloc:
			if g.isCellAlloc(x) {
				return ""
			}
		}
		pt := v.X.Type().Underlying().(*types.Pointer)
		st := pt.Elem().Underlying().(*types.Struct)
		return g.fieldHeapName(pt.Elem(), st.Field(v.Field).Name())
	case *ssa.IndexAddr:
		if _, elT := g.elemOf(v.X.Type()); elT != nil {
			return g.elemHeapName(elT)
		}
		return "*"
	case *ssa.Alloc:
		if g.isCellAlloc(v) {
			return ""
		}
		// whole-struct store into a heap struct: all its field heaps
		return "*struct:" + typeKey(v.Type().Underlying().(*types.Pointer).Elem())
	case *ssa.Global:
		return "G." + sanitize(v.Pkg.Pkg.Path()) + "." + v.Name()
	case *ssa.FreeVar:
		return ""
	}
	if pt, ok := a.Type().Underlying().(*types.Pointer); ok {
		if _, isStruct := pt.Elem().Underlying().(*types.Struct); isStruct {
			return "*struct:" + typeKey(pt.Elem())
		}
		return "P." + typeKey(pt.Elem())
	}
	return "*"
}

// sliceTypeOfIface: the static type of a value converted to interface{} (sort.Slice's argument).
func sliceTypeOfIface(v ssa.Value) types.Type {
	if mi, ok := v.(*ssa.MakeInterface); ok {
		return mi.X.Type()
	}
	return v.Type()
}

func externalWithClosures(c *ssa.CallCommon) bool {
	has := false
	for _, a := range c.Args {
		if asClosure(a) != nil {
			has = true
		}
	}
	return has
}

func asClosure(a ssa.Value) *ssa.MakeClosure {
	for {
		switch v := a.(type) {
		case *ssa.MakeClosure:
			return v
		case *ssa.ChangeType:
			a = v.X
		default:
			return nil
		}
	}
}
