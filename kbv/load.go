package main

import (
	"fmt"
	"go/types"
	"os"
	"path/filepath"
	"sort"
	"strings"

	"golang.org/x/tools/go/packages"
	"golang.org/x/tools/go/ssa"
	"golang.org/x/tools/go/ssa/ssautil"
)

type Program struct {
	pkgs    []*packages.Package
	ssa     *ssa.Program
	spkgs   map[string]*ssa.Package
	byName  map[string]*types.Package
	cs      *Contracts
	lib     *SpecLib
	funcs   map[string]*ssa.Function // key: pkgpath.relname
	repo    string
	curProp string

	modCache   map[*ssa.Function]map[string]bool
	modWhy     map[string]bool
	aliases    map[string]map[string]string // package path -> import alias -> imported path
	guarantees map[string]Clause            // heap name -> two-state guarantee
	ranges     map[string]Clause
	guarded    map[string]bool         // field heap names guarded by their owner's lock            // heap name -> assumed range of the stored value
	monitors   map[string]*MonitorDecl // struct type key -> monitor
}

const modPath = "github.com/kubewharf/kubebrain"

func loadProgram(repo string, patterns []string, specDir string) (*Program, error) {
	cfg := &packages.Config{
		Mode: packages.NeedName | packages.NeedFiles | packages.NeedCompiledGoFiles | packages.NeedImports |
			packages.NeedTypes | packages.NeedTypesSizes | packages.NeedSyntax | packages.NeedTypesInfo,
		Dir:        repo,
		BuildFlags: []string{"-tags=verif"},
		Env:        append(os.Environ(), "GOFLAGS=-mod=mod", "GOPROXY=off", "GOSUMDB=off", "GOTOOLCHAIN=local"),
	}
	pkgs, err := packages.Load(cfg, patterns...)
	if err != nil {
		return nil, err
	}
	var errs []string
	packages.Visit(pkgs, nil, func(p *packages.Package) {
		for _, e := range p.Errors {
			errs = append(errs, e.Error())
		}
	})
	if len(errs) > 0 {
		return nil, fmt.Errorf("package errors: %s", strings.Join(errs, "; "))
	}
	sprog, spkgs := ssautil.Packages(pkgs, ssa.GlobalDebug)
	p := &Program{pkgs: pkgs, ssa: sprog, spkgs: map[string]*ssa.Package{}, byName: map[string]*types.Package{}, funcs: map[string]*ssa.Function{}, repo: repo}
	for i, sp := range spkgs {
		if sp == nil {
			return nil, fmt.Errorf("no SSA for %s", pkgs[i].PkgPath)
		}
		sp.Build()
		p.spkgs[pkgs[i].PkgPath] = sp
	}
	// index types packages by short name (root packages first, then their imports)
	for _, pk := range pkgs {
		p.byName[pk.Types.Name()] = pk.Types
	}
	for _, pk := range pkgs {
		for _, imp := range pk.Types.Imports() {
			if _, ok := p.byName[imp.Name()]; !ok {
				p.byName[imp.Name()] = imp
			}
		}
	}
	// index functions
	for path, sp := range p.spkgs {
		for _, m := range sp.Members {
			switch v := m.(type) {
			case *ssa.Function:
				p.addFunc(path, v)
			case *ssa.Type:
				for _, t := range []types.Type{v.Type(), types.NewPointer(v.Type())} {
					ms := sprog.MethodSets.MethodSet(t)
					for i := 0; i < ms.Len(); i++ {
						if f := sprog.MethodValue(ms.At(i)); f != nil && f.Pkg == sp {
							p.addFunc(path, f)
						}
					}
				}
			}
		}
	}
	// contracts: from the packages' own zz_contracts_verif.go files and from specDir/*.kbc
	p.cs = newContracts()
	for _, pk := range pkgs {
		for _, f := range pk.CompiledGoFiles {
			if filepath.Base(f) == "zz_contracts_verif.go" {
				if err := p.cs.loadGoFile(f, pk.PkgPath); err != nil {
					return nil, err
				}
			}
		}
	}
	ext, _ := filepath.Glob(filepath.Join(specDir, "*.kbc"))
	sort.Strings(ext)
	for _, f := range ext {
		if err := p.cs.loadExternalFile(f); err != nil {
			return nil, err
		}
	}
	if err := p.cs.resolveSameAs(); err != nil {
		return nil, err
	}
	p.modCache = map[*ssa.Function]map[string]bool{}
	p.modWhy = map[string]bool{}
	p.aliases = map[string]map[string]string{}
	for _, pk := range pkgs {
		m := map[string]string{}
		for _, f := range pk.Syntax {
			for _, im := range f.Imports {
				if im.Name != nil {
					m[im.Name.Name] = strings.Trim(im.Path.Value, "\"")
				}
			}
		}
		p.aliases[pk.PkgPath] = m
	}
	p.guarantees = map[string]Clause{}
	p.monitors = map[string]*MonitorDecl{}
	for _, gd := range p.cs.Guarantees {
		tp := p.typesPkg(gd.Pkg)
		i := strings.LastIndex(gd.Designator, ".")
		if tp == nil || i < 0 {
			return nil, fmt.Errorf("%s: bad guarantee designator %s", gd.Clause.Where, gd.Designator)
		}
		obj := tp.Scope().Lookup(gd.Designator[:i])
		if obj == nil {
			return nil, fmt.Errorf("%s: guarantee on unknown type %s", gd.Clause.Where, gd.Designator)
		}
		p.guarantees["F."+typeKey(obj.Type())+"."+gd.Designator[i+1:]] = gd.Clause
	}
	p.ranges = map[string]Clause{}
	p.guarded = map[string]bool{}
	for _, gd := range p.cs.Ranges {
		tp := p.typesPkg(gd.Pkg)
		i := strings.LastIndex(gd.Designator, ".")
		if tp == nil || i < 0 || tp.Scope().Lookup(gd.Designator[:i]) == nil {
			return nil, fmt.Errorf("%s: bad range designator %s", gd.Clause.Where, gd.Designator)
		}
		p.ranges["F."+typeKey(tp.Scope().Lookup(gd.Designator[:i]).Type())+"."+gd.Designator[i+1:]] = gd.Clause
	}
	for _, m := range p.cs.Monitors {
		tp := p.typesPkg(m.Pkg)
		if tp == nil || tp.Scope().Lookup(m.Type) == nil {
			return nil, fmt.Errorf("monitor on unknown type %s", m.Type)
		}
		ot := tp.Scope().Lookup(m.Type).Type()
		p.monitors[typeKey(ot)] = m
		for _, f := range m.Fields {
			p.guarded["F."+typeKey(ot)+"."+strings.TrimSuffix(f, "[]")] = true
		}
	}
	smt, _ := filepath.Glob(filepath.Join(specDir, "*.smt2"))
	sort.Strings(smt)
	p.lib, err = loadSpecLib(smt)
	if err != nil {
		return nil, err
	}
	return p, nil
}

func (p *Program) addFunc(path string, f *ssa.Function) {
	key := path + "." + f.RelString(f.Pkg.Pkg)
	p.funcs[key] = f
	var addAnon func(g *ssa.Function)
	addAnon = func(g *ssa.Function) {
		for _, an := range g.AnonFuncs {
			p.funcs[path+"."+an.RelString(f.Pkg.Pkg)] = an
			addAnon(an) // function literals nested in function literals
		}
	}
	addAnon(f)
}

// lookupType resolves "pkg.T" or "*pkg.T" by short package name.
func (p *Program) lookupType(s string) types.Type {
	ptr := strings.HasPrefix(s, "*")
	s = strings.TrimPrefix(s, "*")
	i := strings.LastIndex(s, ".")
	if i < 0 {
		return nil
	}
	pk, ok := p.byName[s[:i]]
	if !ok {
		// common import aliases
		if s[:i] == "proto" {
			pk, ok = p.byName["v2rpc"]
		}
		if !ok {
			return nil
		}
	}
	obj := pk.Scope().Lookup(s[i+1:])
	if obj == nil {
		return nil
	}
	if ptr {
		return types.NewPointer(obj.Type())
	}
	return obj.Type()
}

// contractFor finds the contract of a static callee or an interface method.
func (p *Program) contractKeyOfFunc(f *ssa.Function) string {
	if f.Pkg == nil {
		// method of an external / synthetic: use object's package
		if obj := f.Object(); obj != nil && obj.Pkg() != nil {
			return obj.Pkg().Path() + "." + f.RelString(obj.Pkg())
		}
		return f.String()
	}
	return f.Pkg.Pkg.Path() + "." + f.RelString(f.Pkg.Pkg)
}
