package main

import (
	"fmt"
	"go/types"
	"sort"
	"strings"
)

// ---------- sorts ----------

type Kind int

const (
	KBool Kind = iota
	KInt
	KBV
	KSlice
	KIface
	KStr
	KData  // struct value as datatype
	KRef   // pointer / map / chan / func: object id coded as Int
	KArray // Go array value
	KReal
	KRaw // ghost sort given as raw SMT text
	KUnit
)

type Field struct {
	Name string // go field name
	Acc  string // SMT accessor
	So   *Sort
	GoT  types.Type
}

type Sort struct {
	K      Kind
	W      int
	Name   string // SMT sort text
	Fields []Field
	Ctor   string
	Elem   *Sort
	Signed bool // for KInt: go signed integer width W
}

var (
	SBool  = &Sort{K: KBool, Name: "Bool"}
	SInt   = &Sort{K: KInt, Name: "Int", W: 64, Signed: true}
	SInt32 = &Sort{K: KInt, Name: "Int", W: 32, Signed: true}
	SInt16 = &Sort{K: KInt, Name: "Int", W: 16, Signed: true}
	SInt8  = &Sort{K: KInt, Name: "Int", W: 8, Signed: true}
	SMath  = &Sort{K: KInt, Name: "Int", W: 0} // mathematical integer (spec only)
	SBV8   = &Sort{K: KBV, W: 8, Name: "(_ BitVec 8)"}
	SBV16  = &Sort{K: KBV, W: 16, Name: "(_ BitVec 16)"}
	SBV32  = &Sort{K: KBV, W: 32, Name: "(_ BitVec 32)"}
	SBV64  = &Sort{K: KBV, W: 64, Name: "(_ BitVec 64)"}
	SSlice = &Sort{K: KSlice, Name: "Slice"}
	SIface = &Sort{K: KIface, Name: "Iface"}
	SStr   = &Sort{K: KStr, Name: "Str"}
	SRef   = &Sort{K: KRef, Name: "Int"}
	SReal  = &Sort{K: KReal, Name: "Real"}
	SUnit  = &Sort{K: KUnit, Name: "Bool"}
)

func bvSort(w int) *Sort {
	switch w {
	case 8:
		return SBV8
	case 16:
		return SBV16
	case 32:
		return SBV32
	}
	return SBV64
}

func rawSort(text string) *Sort {
	switch text {
	case "Bool":
		return SBool
	case "Int":
		return SMath
	case "(_ BitVec 64)":
		return SBV64
	case "(_ BitVec 8)":
		return SBV8
	case "(_ BitVec 32)":
		return SBV32
	case "(_ BitVec 16)":
		return SBV16
	case "Slice":
		return SSlice
	case "Iface":
		return SIface
	case "Str":
		return SStr
	case "Ref":
		return SRef // a pointer (object identity), for ghost variables
	}
	return &Sort{K: KRaw, Name: text}
}

// T is an SMT term with its sort and (optionally) the Go type it came from.
type T struct {
	S   string
	So  *Sort
	GoT types.Type
}

func (t T) String() string { return t.S }

const prelude = `(set-logic ALL)
(declare-datatypes ((Slice 0)) (((mkslice (s_obj Int) (s_off Int) (s_len Int) (s_cap Int)))))
(declare-datatypes ((Iface 0)) (((inil) (ibox (itag Int) (iptr Int)))))
(declare-datatypes ((Str 0)) (((mkstr (sarr (Array Int (_ BitVec 8))) (slen Int)))))
(define-fun wf_slice ((s Slice)) Bool (and (>= (s_obj s) 0) (>= (s_off s) 0) (>= (s_len s) 0) (<= (s_len s) (s_cap s)) (<= (s_cap s) 281474976710656) (<= (s_off s) 281474976710656) (=> (= (s_obj s) 0) (and (= (s_cap s) 0) (= (s_off s) 0)))))
(define-fun nil_slice () Slice (mkslice 0 0 0 0))
(define-fun wrap64 ((x Int)) Int (ite (> x 9223372036854775807) (- x 18446744073709551616) (ite (< x (- 9223372036854775808)) (+ x 18446744073709551616) x)))
(define-fun wrap32 ((x Int)) Int (ite (> x 2147483647) (- x 4294967296) (ite (< x (- 2147483648)) (+ x 4294967296) x)))
(define-fun in64 ((x Int)) Bool (and (<= (- 9223372036854775808) x) (<= x 9223372036854775807)))
(define-fun in32 ((x Int)) Bool (and (<= (- 2147483648) x) (<= x 2147483647)))
(define-fun absi ((x Int)) Int (ite (>= x 0) x (- x)))
(define-fun go_mod ((a Int) (b Int)) Int (ite (>= a 0) (mod a (absi b)) (- (mod (- a) (absi b)))))
(define-fun go_div ((a Int) (b Int)) Int (ite (>= a 0) (ite (> b 0) (div a b) (- (div a (- b)))) (ite (> b 0) (- (div (- a) b)) (div (- a) (- b)))))
(define-fun s2u64 ((x Int)) (_ BitVec 64) ((_ int2bv 64) x))
(define-fun u2s64 ((x (_ BitVec 64))) Int (ite (bvslt x #x0000000000000000) (- (bv2nat x) 18446744073709551616) (bv2nat x)))
(define-fun imin ((a Int) (b Int)) Int (ite (<= a b) a b))
(define-fun imax ((a Int) (b Int)) Int (ite (>= a b) a b))
(define-fun bvmax64 ((a (_ BitVec 64)) (b (_ BitVec 64))) (_ BitVec 64) (ite (bvugt a b) a b))
(define-fun bvmin64 ((a (_ BitVec 64)) (b (_ BitVec 64))) (_ BitVec 64) (ite (bvult a b) a b))
(declare-fun interior (Int Int) Int)
`

// ---------- type environment: Go types -> sorts ----------

type TEnv struct {
	data  map[string]*Sort // by SMT name
	order []string
	tags  map[string]int // dynamic type tags
	busy  map[string]bool
}

func newTEnv() *TEnv {
	return &TEnv{data: map[string]*Sort{}, tags: map[string]int{}, busy: map[string]bool{}}
}

func sanitize(s string) string {
	r := strings.NewReplacer("github.com/kubewharf/kubebrain/pkg/", "", "github.com/kubewharf/kubebrain-client/api/", "", "|", "!", "\\", "!", " ", "_")
	return r.Replace(s)
}

func typeKey(t types.Type) string {
	if b, ok := t.(*types.Basic); ok {
		switch b.Kind() {
		case types.Uint8:
			return "uint8"
		case types.Int32:
			return "int32"
		}
	}
	return sanitize(types.TypeString(t, func(p *types.Package) string { return p.Path() }))
}

func (te *TEnv) tagOf(t types.Type) int {
	k := typeKey(t)
	if v, ok := te.tags[k]; ok {
		return v
	}
	v := len(te.tags) + 1
	te.tags[k] = v
	return v
}

func (te *TEnv) sortOf(t types.Type) *Sort {
	switch u := t.Underlying().(type) {
	case *types.Basic:
		switch u.Kind() {
		case types.Bool, types.UntypedBool:
			return SBool
		case types.Int, types.Int64, types.UntypedInt, types.UntypedRune:
			return SInt
		case types.Int32:
			return SInt32
		case types.Int16:
			return SInt16
		case types.Int8:
			return SInt8
		case types.Uint, types.Uint64, types.Uintptr:
			return SBV64
		case types.Uint32:
			return SBV32
		case types.Uint16:
			return SBV16
		case types.Uint8:
			return SBV8
		case types.String, types.UntypedString:
			return SStr
		case types.Float32, types.Float64, types.UntypedFloat:
			return SReal
		case types.UnsafePointer:
			return SRef
		case types.UntypedNil:
			return SRef
		}
		return SRef
	case *types.Pointer, *types.Map, *types.Chan, *types.Signature:
		return SRef
	case *types.Slice:
		return SSlice
	case *types.Interface:
		return SIface
	case *types.Struct:
		return te.structSort(t, u)
	case *types.Array:
		el := te.sortOf(u.Elem())
		return &Sort{K: KArray, Name: "(Array Int " + el.Name + ")", Elem: el, W: int(u.Len())}
	case *types.Tuple:
		return SUnit
	}
	return SRef
}

func (te *TEnv) structSort(t types.Type, st *types.Struct) *Sort {
	name := "S!" + typeKey(t)
	if _, isNamed := t.(*types.Named); !isNamed {
		name = fmt.Sprintf("S!anon%d!%d", st.NumFields(), len(typeKey(t)))
	}
	q := "|" + name + "|"
	if s, ok := te.data[q]; ok {
		return s
	}
	s := &Sort{K: KData, Name: q, Ctor: "|mk!" + name + "|"}
	te.data[q] = s
	seen := map[string]bool{}
	for i := 0; i < st.NumFields(); i++ {
		f := st.Field(i)
		fs := te.sortOf(f.Type())
		an := f.Name()
		if an == "_" || seen[an] {
			an = fmt.Sprintf("%s!%d", an, i)
		}
		seen[an] = true
		s.Fields = append(s.Fields, Field{Name: f.Name(), Acc: "|" + name + "." + an + "|", So: fs, GoT: f.Type()})
	}
	te.order = append(te.order, q)
	return s
}

func (te *TEnv) decls() string {
	var sb strings.Builder
	for _, q := range te.order {
		s := te.data[q]
		if len(s.Fields) == 0 {
			fmt.Fprintf(&sb, "(declare-datatypes ((%s 0)) (((%s))))\n", s.Name, s.Ctor)
			continue
		}
		fmt.Fprintf(&sb, "(declare-datatypes ((%s 0)) (((%s", s.Name, s.Ctor)
		for _, f := range s.Fields {
			fmt.Fprintf(&sb, " (%s %s)", f.Acc, f.So.Name)
		}
		sb.WriteString("))))\n")
	}
	return sb.String()
}

func (te *TEnv) zero(s *Sort) string {
	switch s.K {
	case KBool, KUnit:
		return "false"
	case KInt, KRef:
		return "0"
	case KReal:
		return "0.0"
	case KBV:
		return bvLit(0, s.W)
	case KSlice:
		return "nil_slice"
	case KIface:
		return "inil"
	case KStr:
		return "(mkstr ((as const (Array Int (_ BitVec 8))) #x00) 0)"
	case KData:
		if len(s.Fields) == 0 {
			return s.Ctor
		}
		parts := []string{s.Ctor}
		for _, f := range s.Fields {
			parts = append(parts, te.zero(f.So))
		}
		return "(" + strings.Join(parts, " ") + ")"
	case KArray:
		return "((as const " + s.Name + ") " + te.zero(s.Elem) + ")"
	}
	return "0"
}

func bvLit(v uint64, w int) string {
	switch w {
	case 8:
		return fmt.Sprintf("#x%02x", v&0xff)
	case 16:
		return fmt.Sprintf("#x%04x", v&0xffff)
	case 32:
		return fmt.Sprintf("#x%08x", v&0xffffffff)
	}
	return fmt.Sprintf("#x%016x", v)
}

func intLit(v int64) string {
	if v < 0 {
		if v == -9223372036854775808 {
			return "(- 9223372036854775808)"
		}
		return fmt.Sprintf("(- %d)", -v)
	}
	return fmt.Sprintf("%d", v)
}

func and(xs ...string) string {
	var ys []string
	for _, x := range xs {
		if x == "true" || x == "" {
			continue
		}
		ys = append(ys, x)
	}
	if len(ys) == 0 {
		return "true"
	}
	if len(ys) == 1 {
		return ys[0]
	}
	return "(and " + strings.Join(ys, " ") + ")"
}

func or(xs ...string) string {
	var ys []string
	for _, x := range xs {
		if x == "false" || x == "" {
			continue
		}
		ys = append(ys, x)
	}
	if len(ys) == 0 {
		return "false"
	}
	if len(ys) == 1 {
		return ys[0]
	}
	return "(or " + strings.Join(ys, " ") + ")"
}

func not(x string) string {
	if x == "true" {
		return "false"
	}
	if x == "false" {
		return "true"
	}
	return "(not " + x + ")"
}

func app(f string, args ...string) string {
	if len(args) == 0 {
		return f
	}
	return "(" + f + " " + strings.Join(args, " ") + ")"
}

func sortedKeys(m map[string]string) []string {
	ks := make([]string, 0, len(m))
	for k := range m {
		ks = append(ks, k)
	}
	sort.Strings(ks)
	return ks
}
