package main

import (
	"fmt"
	"go/token"
	"go/types"
	"sort"
	"strings"

	"golang.org/x/tools/go/ssa"
)

// effectFree lists external functions treated as having no effect on verified state and
// as not panicking. They are reported in the evidence as trusted.
var effectFreePrefixes = []string{
	"k8s.io/klog/v2.",
	"(github.com/kubewharf/kubebrain/pkg/metrics.Metrics).",
	"github.com/kubewharf/kubebrain/pkg/metrics.Tag",
	"(k8s.io/klog/v2.",
	"fmt.Sprintf", "fmt.Errorf", "fmt.Sprint", "fmt.Sprintln",
	"errors.New",
	"github.com/pkg/errors.New", "github.com/pkg/errors.Errorf", "github.com/pkg/errors.Wrap", "github.com/pkg/errors.Wrapf", "github.com/pkg/errors.WithStack",
	"encoding/hex.EncodeToString",
	"time.Now", "time.Since", "(time.Time).", "(time.Duration).", "time.Duration",
	"context.WithTimeout", "context.WithCancel", "context.Background", "context.TODO", "context.WithValue",
	"(context.Context).",
	"(*sync.WaitGroup).",
	"strconv.",
	"(error).Error",
	"google.golang.org/grpc/status.", "google.golang.org/grpc/codes.",
	"(*time.Ticker).", "time.NewTicker", "time.After", "time.Sleep",
	"(*container/list.List).", "container/list.New", "(*container/list.Element).",
	"dynamic:context.CancelFunc", "dynamic:func()",
	"encoding/json.Marshal",
	"k8s.io/apimachinery/pkg/api/errors.NewNotFound",
	"(k8s.io/client-go/tools/leaderelection/resourcelock.Interface).",
}

const tagPlainErr = 1000001
const tagWrapErr = 1000002

func returnsNonNilError(name string) bool {
	switch name {
	case "errors.New", "fmt.Errorf", "github.com/pkg/errors.New", "github.com/pkg/errors.Errorf", "google.golang.org/grpc/status.Errorf":
		return true
	}
	return false
}

func isEffectFree(name string) bool {
	if strings.Contains(name, "_WatchServer).") || strings.Contains(name, "StreamServer).") {
		return true // gRPC server-side stream handles: Send / Recv / Context touch no tracked state
	}
	if (strings.HasSuffix(name, ").Size") || strings.HasSuffix(name, ").String")) && (strings.Contains(name, "v2rpc") || strings.Contains(name, "etcdserverpb") || strings.Contains(name, "mvccpb")) {
		return true // generated protobuf size / string methods
	}
	for _, p := range effectFreePrefixes {
		if strings.HasPrefix(name, p) {
			return true
		}
	}
	return false
}

func calleeName(c *ssa.CallCommon) string {
	if c.IsInvoke() {
		recv := c.Value.Type()
		return "(" + types.TypeString(recv, nil) + ")." + c.Method.Name()
	}
	switch f := c.Value.(type) {
	case *ssa.Function:
		return f.String()
	case *ssa.Builtin:
		return "builtin." + f.Name()
	case *ssa.MakeClosure:
		return f.Fn.(*ssa.Function).String()
	}
	return "dynamic:" + c.Value.Type().String()
}

// contractOfCall finds the contract that governs a call.
func (g *Gen) contractOfCall(c *ssa.CallCommon) (*Contract, string) {
	if c.IsInvoke() {
		recv := c.Value.Type()
		if n, ok := recv.(*types.Named); ok && n.Obj().Pkg() != nil {
			key := n.Obj().Pkg().Path() + "." + n.Obj().Name() + "." + c.Method.Name()
			return g.cs.Funcs[key], key
		}
		if n, ok := recv.(*types.Named); ok && n.Obj().Pkg() == nil {
			key := n.Obj().Name() + "." + c.Method.Name() // error.Error
			return g.cs.Funcs[key], key
		}
		return nil, calleeName(c)
	}
	switch f := c.Value.(type) {
	case *ssa.Function:
		key := g.prog.contractKeyOfFunc(f)
		if ct, ok := g.cs.Funcs[key]; ok {
			return ct, key
		}
		// promoted method through embedded field: synthetic wrapper "(*T).M" -> look at the underlying object
		if f.Synthetic != "" && f.Object() != nil {
			if fo, ok := f.Object().(*types.Func); ok && fo.Pkg() != nil {
				sig := fo.Type().(*types.Signature)
				if sig.Recv() != nil {
					rt := sig.Recv().Type()
					rs := types.TypeString(rt, func(p *types.Package) string { return "" })
					key2 := fo.Pkg().Path() + ".(" + strings.TrimPrefix(rs, ".") + ")." + fo.Name()
					key2 = strings.Replace(key2, "(*.", "(*", 1)
					key2 = strings.Replace(key2, "(.", "(", 1)
					if ct, ok := g.cs.Funcs[key2]; ok {
						return ct, key2
					}
				}
			}
		}
		return nil, key
	case *ssa.MakeClosure:
		fn := f.Fn.(*ssa.Function)
		key := g.prog.contractKeyOfFunc(fn)
		return g.cs.Funcs[key], key
	}
	// call through a function value: contract keyed by the named func type, or for an unnamed
	// func type by "dyn:<signature>" in the calling package
	if n, ok := c.Value.Type().(*types.Named); ok && n.Obj().Pkg() != nil {
		key := n.Obj().Pkg().Path() + "." + n.Obj().Name()
		return g.cs.Funcs[key], key
	}
	if g.pkg != nil {
		key := g.pkg.Path() + ".dyn:" + strings.ReplaceAll(types.TypeString(c.Value.Type(), func(p *types.Package) string { return p.Name() }), " ", "")
		if ct, ok := g.cs.Funcs[key]; ok {
			return ct, key
		}
	}
	return nil, calleeName(c)
}

func (g *Gen) execCall(v ssa.Value, c *ssa.CallCommon, in ssa.Instruction, st State, reach string) {
	defer g.applyVolatile(st)
	if b, ok := c.Value.(*ssa.Builtin); ok {
		g.execBuiltin(v, b, c, in, st, reach)
		return
	}
	name := calleeName(c)
	if g.stdModel(v, name, c, in, st, reach) {
		if ct, key := g.contractOfCall(c); ct != nil && ct.GhostOnly {
			g.ghostRes = v
			g.applyContract(nil, ct, key, c, in, st, reach)
			g.ghostRes = nil
		}
		return
	}
	ct, key := g.contractOfCall(c)
	if ct != nil {
		g.applyContract(v, ct, key, c, in, st, reach)
		return
	}
	// protobuf getters: nil-safe field access
	if isNilSafeGetter(name) && !c.IsInvoke() && len(c.Args) == 1 && v != nil {
		if g.pbGetter(v, c, st) {
			return
		}
	}
	// a closure under contract handed to a function without one (wait.ExponentialBackoff, ...):
	// its preconditions must hold where it is handed over; that they still hold when it is
	// invoked (possibly repeatedly) is the closure's own [requires-stable] postcondition plus the
	// recorded assumption that the callee touches tracked state only through the closure
	for _, a := range c.Args {
		if mc := asClosure(a); mc != nil {
			fake := &ssa.CallCommon{Value: mc}
			if cct, ckey := g.contractOfCall(fake); cct != nil && len(cct.Requires) > 0 {
				g.checkCallPre(cct, ckey, fake, in, st, reach)
				g.assumed["closure handed to "+trimName(name)+" is invoked only synchronously, with no write to tracked state in between"] = true
			}
		}
	}
	// functions of the loaded program that only log (checked on their SSA body)
	if f, ok := c.Value.(*ssa.Function); ok && f.Blocks != nil && f.Signature.Results().Len() == 0 && g.closureIsLoggingOnly(f, 0) {
		g.assumed["logging-only function (body scanned: no stores, sends or non-logging calls), trusted not to panic: "+trimName(name)] = true
		return
	}
	// a loop-free helper of the same package without a contract is executed in place (inline.go)
	if f, ok := c.Value.(*ssa.Function); ok && g.inlineCall(v, f, c, st, reach) {
		return
	}
	// results
	if returnsNonNilError(name) && v != nil {
		// a fresh error value without Is/Unwrap methods (fmt.Errorf with %w is not used in this code base)
		a := g.stGet(st, "alloc", SMath)
		id := g.define(v.Name()+".err", SMath, app("+", a, "1"))
		g.stSet(st, "alloc", SMath, id)
		g.setVal(v, app("ibox", fmt.Sprint(tagPlainErr), id))
		g.assumed["fresh plain error (no Is/Unwrap): "+trimName(name)] = true
		return
	}
	rs := g.havocResults(v, c, st)
	if name == "time.NewTicker" || name == "time.NewTimer" {
		if len(rs) == 1 {
			g.assume(app(">", rs[0].S, "0")) // constructors that never return nil
		}
	}
	if f, ok := c.Value.(*ssa.Function); ok && f.Name() == "init" && f.Synthetic != "" {
		return // initialiser of an imported package: does not touch this package's state
	}
	if isEffectFree(name) {
		g.assumed["effect-free (trusted, not verified): "+trimName(name)] = true
		return
	}
	if c.IsInvoke() && (c.Method.Name() == "Error" || c.Method.Name() == "String") {
		return
	}
	// external decoders write only through the pointer they are given
	if name == "encoding/json.Unmarshal" && len(c.Args) == 2 {
		g.assumed["external function writes only through its pointer argument: "+name] = true
		if mi, ok := c.Args[1].(*ssa.MakeInterface); ok {
			if pt, ok := mi.X.Type().Underlying().(*types.Pointer); ok {
				if _, isStruct := pt.Elem().Underlying().(*types.Struct); isStruct {
					if a, isAlloc := mi.X.(*ssa.Alloc); isAlloc && g.isCellAlloc(a) {
						lv := g.resolveAddr(a, st)
						g.stHavoc(st, lv.heap, lv.hso)
					} else {
						pre := "F." + typeKey(pt.Elem()) + "."
						for hn, so := range g.stSorts {
							if strings.HasPrefix(hn, pre) {
								g.stHavoc(st, hn, so)
								g.recordWrite(hn, mi.X)
							}
						}
						if g.curMods != nil {
							g.curMods["*struct:"+typeKey(pt.Elem())] = nil
						}
					}
					return
				}
			}
		}
	}
	// a function of the loaded program without a contract: havoc exactly what its body (and
	// its callees) may write, computed syntactically on the SSA
	var callee *ssa.Function
	switch f := c.Value.(type) {
	case *ssa.Function:
		callee = f
	case *ssa.MakeClosure:
		callee = f.Fn.(*ssa.Function)
	}
	if callee != nil && (callee.Blocks != nil || externalWithClosures(c)) {
		mods := g.callMods(c, map[*ssa.Function]bool{})
		if callee.Blocks == nil {
			g.assumed["external function affects tracked state only through the closures passed to it: "+trimName(name)] = true
		}
		if !mods["*"] {
			g.note("call without contract: %s at %s: results havocked, inferred write set havocked", trimName(name), g.where(in.Pos()))
			g.havocNames(mods, st)
			return
		}
	}
	g.note("call without contract: %s at %s: results havocked, all heaps havocked", trimName(name), g.where(in.Pos()))
	g.havocAllHeaps(st)
}

func trimName(s string) string {
	return strings.ReplaceAll(strings.ReplaceAll(s, "github.com/kubewharf/kubebrain/pkg/", ""), "github.com/kubewharf/kubebrain-client/api/", "")
}

func (g *Gen) havocResults(v ssa.Value, c *ssa.CallCommon, st State) []T {
	if v == nil {
		return nil
	}
	res := c.Signature().Results()
	switch res.Len() {
	case 0:
		return nil
	case 1:
		t := g.havocVal(v)
		g.assumeTypeInv(t, nil)
		return []T{t}
	}
	var ts []T
	for i := 0; i < res.Len(); i++ {
		so := g.te.sortOf(res.At(i).Type())
		t := T{S: g.fresh(fmt.Sprintf("%s.%d", v.Name(), i), so), So: so, GoT: res.At(i).Type()}
		g.assumeTypeInv(t, nil)
		ts = append(ts, t)
	}
	g.tuples[v] = ts
	return ts
}

// modSet resolves the modifies designators of a contract to state component names.
func (g *Gen) modSet(ct *Contract, pkg *types.Package) map[string]bool {
	out := map[string]bool{}
	cpkg := g.prog.typesPkg(ct.Pkg)
	if cpkg == nil {
		cpkg = pkg
	}
	for _, d := range ct.Modifies {
		for _, n := range g.resolveDesignator(d, cpkg) {
			out[n] = true
		}
	}
	return out
}

func (g *Gen) resolveDesignator(d string, pkg *types.Package) []string {
	switch {
	case d == "*":
		return []string{"*"}
	case strings.HasPrefix(d, "inferred:"):
		// the syntactic write set of a function of the loaded program (over-approximation
		// computed on its SSA, transitively): a frame that is sound by construction
		name := strings.TrimPrefix(d, "inferred:")
		key := name
		if pkg != nil && !strings.Contains(name, "/") {
			key = pkg.Path() + "." + name
		}
		fn := g.prog.funcs[key]
		if fn == nil {
			g.errorf("modifies %s: function not found", d)
			return nil
		}
		var out []string
		for k := range g.inferMods(fn, map[*ssa.Function]bool{}) {
			if strings.HasPrefix(k, "*struct:") {
				pre := "F." + strings.TrimPrefix(k, "*struct:") + "."
				for hn := range g.stSorts {
					if strings.HasPrefix(hn, pre) {
						out = append(out, hn)
					}
				}
				continue
			}
			out = append(out, k)
		}
		sort.Strings(out)
		return out
	case d == "bytes":
		return []string{"E.uint8"}
	case d == "ghost.backend_call":
		// the record of the last call through the Backend interface (declared in package backend)
		return []string{"ghost.be_op", "ghost.be_req", "ghost.be_resp", "ghost.be_err"}
	case d == "ghost.iteration":
		// the ghost view of the live iterator (declared in package storage)
		return []string{"ghost.rec_n", "ghost.rec_key", "ghost.rec_val", "ghost.rec_uk", "ghost.rec_rev", "ghost.it_pos", "ghost.it_lo", "ghost.it_hi"}
	case strings.HasPrefix(d, "ghost."):
		return []string{d}
	case strings.HasPrefix(d, "E.") || strings.HasPrefix(d, "F.") || strings.HasPrefix(d, "G.") || strings.HasPrefix(d, "P.") || strings.HasPrefix(d, "M."):
		return []string{d}
	case strings.HasPrefix(d, "[]"):
		if t := g.resolveTypeName(strings.TrimPrefix(d, "[]"), pkg); t != nil {
			hn := g.elemHeapName(t)
			if _, ok := g.stSorts[hn]; !ok {
				g.stSorts[hn] = g.elemHeapSort(g.te.sortOf(t))
			}
			return []string{hn}
		}
	}
	// Type.field or pkg.Type.field
	parts := strings.Split(d, ".")
	if len(parts) >= 2 {
		field := parts[len(parts)-1]
		tn := strings.Join(parts[:len(parts)-1], ".")
		if t := g.resolveTypeName(tn, pkg); t != nil {
			if field == "*" {
				var out []string
				if st, ok := t.Underlying().(*types.Struct); ok {
					for i := 0; i < st.NumFields(); i++ {
						out = append(out, g.fieldHeapName(t, st.Field(i).Name()))
					}
				}
				return out
			}
			if st, ok := t.Underlying().(*types.Struct); ok {
				for i := 0; i < st.NumFields(); i++ {
					if st.Field(i).Name() == field {
						hn := g.fieldHeapName(t, field)
						if _, ok := g.stSorts[hn]; !ok {
							g.stSorts[hn] = &Sort{K: KRaw, Name: "(Array Int " + g.te.sortOf(st.Field(i).Type()).Name + ")"}
						}
					}
				}
			}
			return []string{g.fieldHeapName(t, field)}
		}
	}
	g.errorf("cannot resolve modifies designator %q", d)
	return nil
}

func (g *Gen) resolveTypeName(s string, pkg *types.Package) types.Type {
	ptr := strings.HasPrefix(s, "*")
	s = strings.TrimPrefix(s, "*")
	var t types.Type
	switch s {
	case "byte", "uint8":
		t = types.Typ[types.Uint8]
	case "uint64":
		t = types.Typ[types.Uint64]
	case "int":
		t = types.Typ[types.Int]
	case "string":
		t = types.Typ[types.String]
	default:
		if i := strings.LastIndex(s, "."); i >= 0 {
			if p := g.importedPkg(pkg, s[:i]); p != nil {
				if o := p.Scope().Lookup(s[i+1:]); o != nil {
					t = o.Type()
				}
			}
		} else if pkg != nil {
			if o := pkg.Scope().Lookup(s); o != nil {
				t = o.Type()
			}
		}
	}
	if t == nil {
		return nil
	}
	if ptr {
		return types.NewPointer(t)
	}
	return t
}

// applyContract: assert requires, havoc modifies, assume ensures.
func (g *Gen) applyContract(v ssa.Value, ct *Contract, key string, c *ssa.CallCommon, in ssa.Instruction, st State, reach string) {
	g.calleeDepth++
	defer func() { g.calleeDepth-- }()
	if ct.Assumed {
		g.assumed["assumed contract: "+trimName(key)] = true
	}
	vars := g.callVars(ct, c, st)
	sig := c.Signature()
	cpkg := g.prog.typesPkg(ct.Pkg)
	if cpkg == nil {
		cpkg = g.pkg
	}
	pre := st.clone()
	g.checkCallPre(ct, key, c, in, st, reach)
	// havoc
	if !ct.Pure {
		a := g.stGet(st, "alloc", SMath)
		na := g.stHavoc(st, "alloc", SMath)
		g.assume(app(">=", na, a))
	}
	for n := range g.modSet(ct, cpkg) {
		if n == "*" {
			g.havocAllHeaps(st)
			continue
		}
		so := g.stSorts[n]
		if so == nil {
			so = g.guessStateSort(n)
			if so == nil {
				if strings.HasPrefix(n, "ghost.") {
					g.errorf("modifies %s of %s: unknown state component", n, key)
				} else if g.curMods != nil {
					g.curMods[n] = nil // never read by this function so far; remembered for loops
				}
				continue
			}
		}
		g.stHavoc(st, n, so)
		g.recordWrite(n, nil)
	}
	if !ct.GhostOnly {
		// (a ghost-only contract rides on a built-in model, which is not a call that could disturb scratch ghosts)
		g.havocScratch(st, g.modSet(ct, cpkg))
	}
	// results
	ts := g.havocResults(v, c, st)
	res := sig.Results()
	if v == nil && g.ghostRes != nil && res.Len() == 1 {
		// ghost-only contract on top of a built-in model: the result is the model's value
		if _, ok := g.vals[g.ghostRes]; ok {
			ts = []T{g.val(g.ghostRes)}
		}
	}
	for i, t := range ts {
		vars[fmt.Sprintf("result%d", i)] = t
		if i == 0 {
			vars["result"] = t
		}
		if n := res.At(i).Name(); n != "" && n != "_" {
			vars[n] = t
		}
		if i < len(ct.Results) {
			vars[ct.Results[i]] = t
		}
		g.assumeTypeInv(t, st)
	}
	g.callLocked = map[string]T{}
	defer func() { g.callLocked = nil }()
	g.bindLets(ct, vars, st, pre)
	for _, cl := range ct.Ensures {
		env := g.envAt(st, pre, cpkg, vars)
		t := env.compileBool(cl.Expr)
		if g.reportSpecErrors(env, cl) {
			continue
		}
		g.assume(app("=>", reach, t.S))
	}
}

func shortKey(key string) string {
	k := trimName(key)
	if i := strings.LastIndex(k, "/"); i >= 0 {
		k = k[i+1:]
	}
	return k
}

func (g *Gen) guessStateSort(n string) *Sort {
	if strings.HasPrefix(n, "ghost.") {
		if gv, ok := g.cs.Ghosts[strings.TrimPrefix(n, "ghost.")]; ok {
			return rawSort(gv.Sort)
		}
	}
	if n == "E.uint8" {
		return g.elemHeapSort(SBV8)
	}
	return nil
}

// ---------- builtins ----------

func (g *Gen) execBuiltin(v ssa.Value, b *ssa.Builtin, c *ssa.CallCommon, in ssa.Instruction, st State, reach string) {
	switch b.Name() {
	case "len", "cap":
		x := g.val(c.Args[0])
		switch x.So.K {
		case KSlice:
			g.setVal(v, app("s_"+b.Name(), x.S))
		case KStr:
			g.setVal(v, app("slen", x.S))
		case KArray:
			g.setVal(v, fmt.Sprint(x.So.W))
		default:
			t := g.havocVal(v)
			g.assume(app(">=", t.S, "0"))
			g.lenModel(t, x, b.Name(), st)
		}
	case "append":
		g.execAppend(v, c, in, st, reach)
	case "copy":
		g.execCopy(v, c, in, st, reach)
	case "close":
		g.closeEffects(c, in, st, reach)
	case "delete":
		g.execMapDelete(c, in, st, reach)
	case "print", "println":
	case "min", "max":
		x, y := g.val(c.Args[0]), g.val(c.Args[1])
		if x.So.K == KInt {
			g.setVal(v, app("i"+b.Name(), x.S, y.S))
		} else {
			g.havocVal(v)
		}
	default:
		if v != nil {
			g.havocVal(v)
		}
		g.note("unsupported builtin %s at %s", b.Name(), g.where(in.Pos()))
	}
}

// rangeCopy returns a fresh array equal to dst except dst[dOff .. dOff+n) = src[sOff .. sOff+n).
func (g *Gen) rangeCopy(el *Sort, dstArr, dOff, srcArr, sOff, n string) string {
	arrSort := &Sort{K: KRaw, Name: "(Array Int " + el.Name + ")"}
	na := g.fresh("arr", arrSort)
	g.assume(fmt.Sprintf("(forall ((j!q Int)) (! (= (select %s j!q) (ite (and (<= %s j!q) (< j!q (+ %s %s))) (select %s (+ (- j!q %s) %s)) (select %s j!q))) :pattern ((select %s j!q))))",
		na, dOff, dOff, n, srcArr, dOff, sOff, dstArr, na))
	return na
}

func (g *Gen) execAppend(v ssa.Value, c *ssa.CallCommon, in ssa.Instruction, st State, reach string) {
	s := g.val(c.Args[0])
	t := g.val(c.Args[1])
	el, elT := g.elemOf(c.Args[0].Type())
	if el == nil {
		g.havocVal(v)
		return
	}
	hn := g.elemHeapName(elT)
	hso := g.elemHeapSort(el)
	h := g.stGet(st, hn, hso)
	var tArr, tOff, tLen string
	if t.So.K == KStr {
		tArr, tOff, tLen = app("sarr", t.S), "0", app("slen", t.S)
	} else {
		tArr, tOff, tLen = app("select", h, app("s_obj", t.S)), app("s_off", t.S), app("s_len", t.S)
	}
	newLen := g.define(v.Name()+".len", SMath, app("+", app("s_len", s.S), tLen))
	fits := g.define(v.Name()+".fits", SBool, app("<=", newLen, app("s_cap", s.S)))
	a := g.stGet(st, "alloc", SMath)
	id := g.define(v.Name()+".obj", SMath, app("+", a, "1"))
	g.stSet(st, "alloc", SMath, id)
	// in place
	inPlace := g.rangeCopy(el, app("select", h, app("s_obj", s.S)), app("+", app("s_off", s.S), app("s_len", s.S)), tArr, tOff, tLen)
	// fresh object: first the old contents at offset 0, then the appended part
	zero := "((as const (Array Int " + el.Name + ")) " + g.te.zero(el) + ")"
	f1 := g.rangeCopy(el, zero, "0", app("select", h, app("s_obj", s.S)), app("s_off", s.S), app("s_len", s.S))
	f2 := g.rangeCopy(el, f1, app("s_len", s.S), tArr, tOff, tLen)
	ncap := g.fresh(v.Name()+".cap", SMath)
	g.assume(and(app(">=", ncap, newLen), app("<=", ncap, "281474976710656")))
	res := app("ite", fits,
		app("mkslice", app("s_obj", s.S), app("s_off", s.S), newLen, app("s_cap", s.S)),
		app("mkslice", id, "0", newLen, ncap))
	// appending nothing to a nil slice yields nil
	res = app("ite", and(app("=", tLen, "0"), app("=", app("s_obj", s.S), "0")), "nil_slice", res)
	g.recordWrite(hn, c.Args[0])
	g.stSet(st, hn, hso, app("ite", fits, app("store", h, app("s_obj", s.S), inPlace), app("store", h, id, f2)))
	g.setVal(v, res)
	g.safety("alloc", "append: resulting length within the allocation limit", in.Pos(), reach, app("<=", newLen, "281474976710656"))
}

func (g *Gen) execCopy(v ssa.Value, c *ssa.CallCommon, in ssa.Instruction, st State, reach string) {
	d := g.val(c.Args[0])
	s := g.val(c.Args[1])
	el, elT := g.elemOf(c.Args[0].Type())
	if el == nil {
		if v != nil {
			g.havocVal(v)
		}
		return
	}
	hn := g.elemHeapName(elT)
	hso := g.elemHeapSort(el)
	h := g.stGet(st, hn, hso)
	var sArr, sOff, sLen string
	if s.So.K == KStr {
		sArr, sOff, sLen = app("sarr", s.S), "0", app("slen", s.S)
	} else {
		sArr, sOff, sLen = app("select", h, app("s_obj", s.S)), app("s_off", s.S), app("s_len", s.S)
	}
	n := g.define("copy.n", SMath, app("imin", app("s_len", d.S), sLen))
	na := g.rangeCopy(el, app("select", h, app("s_obj", d.S)), app("s_off", d.S), sArr, sOff, n)
	g.recordWrite(hn, c.Args[0])
	g.stSet(st, hn, hso, app("ite", app(">", n, "0"), app("store", h, app("s_obj", d.S), na), h))
	if v != nil {
		g.setVal(v, n)
	}
}

// ---------- defers, go ----------

func (g *Gen) runDefers(st State, reach string) {
	// defers registered on the path: SSA has no per-path list, so run those whose
	// block dominates the current block (the only pattern in the code under contract),
	// in LIFO order
	for i := len(g.deferSt) - 1; i >= 0; i-- {
		d := g.deferSt[i]
		if !(d.Block() == g.curBlock || d.Block().Dominates(g.curBlock)) {
			// conditionally registered defer: treat as possibly run
			g.note("defer at %s does not dominate its rundefers: effects applied conditionally is not modelled; treated as run iff registered block reached", g.where(d.Pos()))
			continue
		}
		if mc, ok := d.Call.Value.(*ssa.MakeClosure); ok {
			fn := mc.Fn.(*ssa.Function)
			if ct, key := g.contractOfCall(&d.Call); ct != nil {
				g.applyContract(nil, ct, key, &d.Call, d, st, reach)
				continue
			}
			if g.closureIsLoggingOnly(fn, 0) {
				g.assumed["deferred logging closure trusted not to panic: "+trimName(fn.String())] = true
				continue
			}
			g.note("deferred closure %s at %s has effects and no contract: all heaps havocked", fn.Name(), g.where(d.Pos()))
			g.havocAllHeaps(st)
			continue
		}
		g.execCall(nil, &d.Call, d, st, reach)
	}
}

// closureIsLoggingOnly: the body has no stores (except to its own locals), no sends,
// no map updates, and calls only effect-free functions or getters of the same kind.
func (g *Gen) closureIsLoggingOnly(fn *ssa.Function, depth int) bool {
	if depth > 3 || fn.Blocks == nil {
		return false
	}
	for _, b := range fn.Blocks {
		for _, in := range b.Instrs {
			switch v := in.(type) {
			case *ssa.Store:
				if _, ok := v.Addr.(*ssa.Alloc); ok {
					continue
				}
				if ia, ok := v.Addr.(*ssa.IndexAddr); ok {
					if _, ok := ia.X.(*ssa.Alloc); ok {
						continue // varargs array
					}
				}
				return false
			case *ssa.Send, *ssa.MapUpdate, *ssa.Go, *ssa.Defer, *ssa.Panic:
				return false
			case *ssa.Call:
				if _, ok := v.Call.Value.(*ssa.Builtin); ok {
					continue
				}
				name := calleeName(&v.Call)
				if isEffectFree(name) || isNilSafeGetter(name) || strings.HasSuffix(name, ".String") || strings.HasSuffix(name, ".Error") || strings.HasSuffix(name, ".Size") {
					continue
				}
				if f, ok := v.Call.Value.(*ssa.Function); ok && f.Blocks != nil && g.closureIsLoggingOnly(f, depth+1) {
					continue
				}
				return false
			}
		}
	}
	return true
}

func isNilSafeGetter(name string) bool {
	i := strings.LastIndex(name, ".")
	return i >= 0 && strings.HasPrefix(name[i+1:], "Get") && (strings.Contains(name, "v2rpc") || strings.Contains(name, "etcdserverpb") || strings.Contains(name, "mvccpb"))
}

func (g *Gen) goEffects(v *ssa.Go, st State, reach string) {
	// a spawned function under contract: its preconditions are checked at the spawn point
	// (its effects are not applied: it runs concurrently and is verified on its own)
	if ct, key := g.contractOfCall(&v.Call); ct != nil {
		g.checkCallPre(ct, key, &v.Call, v, st, reach)
	}
	// what the spawned function may write is from now on changed under our feet
	var fn *ssa.Function
	switch f := v.Call.Value.(type) {
	case *ssa.Function:
		fn = f
	case *ssa.MakeClosure:
		fn = f.Fn.(*ssa.Function)
	}
	if g.volatile == nil {
		g.volatile = map[string]bool{}
	}
	if fn == nil || fn.Blocks == nil {
		g.volatile["*"] = true
	} else {
		for k := range g.inferMods(fn, map[*ssa.Function]bool{}) {
			g.volatile[k] = true
		}
		// captured variables assigned by the closure
		if mc, ok := v.Call.Value.(*ssa.MakeClosure); ok {
			for i, fv := range fn.FreeVars {
				written := false
				for _, r := range *fv.Referrers() {
					switch u := r.(type) {
					case *ssa.Store:
						if u.Addr == ssa.Value(fv) {
							written = true
						}
					case *ssa.Call:
						if strings.HasPrefix(calleeName(&u.Call), "sync/atomic.") {
							written = true
						}
					}
				}
				if a, ok := mc.Bindings[i].(*ssa.Alloc); ok && written && g.isCellAlloc(a) {
					g.volatile[g.cellName(a)] = true
				}
			}
		}
	}
	g.applyVolatile(st)
}

// applyVolatile havocs the state components that concurrently running goroutines spawned by
// this function may write. Called at the spawn, at every later block entry and after calls.
func (g *Gen) applyVolatile(st State) {
	if len(g.volatile) == 0 {
		return
	}
	if g.volatile["*"] {
		g.havocAllHeaps(st)
	}
	for n := range g.volatile {
		if n == "*" || n == "" {
			continue
		}
		if strings.HasPrefix(n, "*struct:") {
			g.havocNames(map[string]bool{n: true}, st)
			continue
		}
		if so := g.stSorts[n]; so != nil {
			g.stHavoc(st, n, so)
			g.recordWrite(n, nil)
		} else if g.curMods != nil {
			g.curMods[n] = nil
		}
	}
}

// closureVars binds the captured variables of a closure call to their current values.
func (g *Gen) closureVars(c *ssa.CallCommon, st State, vars map[string]T) {
	mc, ok := c.Value.(*ssa.MakeClosure)
	if !ok {
		return
	}
	fn := mc.Fn.(*ssa.Function)
	for i, fv := range fn.FreeVars {
		b := mc.Bindings[i]
		if a, ok := b.(*ssa.Alloc); ok && g.isCellAlloc(a) {
			lv := g.resolveAddr(a, st)
			vars[fv.Name()] = T{S: g.lvLoad(lv, st), So: lv.so, GoT: lv.goT}
		} else if _, ok := b.Type().Underlying().(*types.Pointer); ok {
			lv := g.resolveAddr(b, st)
			if lv.kind != lvBad {
				vars[fv.Name()] = T{S: g.lvLoad(lv, st), So: lv.so, GoT: lv.goT}
			}
		} else {
			vars[fv.Name()] = g.val(b)
		}
	}
}

func (g *Gen) callVars(ct *Contract, c *ssa.CallCommon, st State) map[string]T {
	vars := map[string]T{}
	var args []T
	if c.IsInvoke() {
		recv := g.val(c.Value)
		vars["self"] = recv
		args = append(args, recv)
	}
	for _, a := range c.Args {
		args = append(args, g.val(a))
	}
	sig := c.Signature()
	off := 0
	if c.IsInvoke() {
		off = 1
	} else if f, ok := c.Value.(*ssa.Function); ok && f.Signature.Recv() != nil {
		off = 1
		if len(args) > 0 {
			vars["self"] = args[0]
			if len(f.Params) > 0 {
				vars[f.Params[0].Name()] = args[0]
			}
		}
	}
	g.closureVars(c, st, vars)
	for i := 0; i < sig.Params().Len(); i++ {
		if off+i >= len(args) {
			break
		}
		if n := sig.Params().At(i).Name(); n != "" && n != "_" {
			vars[n] = args[off+i]
		}
		if i < len(ct.Params) {
			vars[ct.Params[i]] = args[off+i]
		}
		vars[fmt.Sprintf("arg%d", i)] = args[off+i]
	}
	return vars
}

func (g *Gen) checkCallPre(ct *Contract, key string, c *ssa.CallCommon, in ssa.Instruction, st State, reach string) {
	g.calleeDepth++
	defer func() { g.calleeDepth-- }()
	vars := g.callVars(ct, c, st)
	cpkg := g.prog.typesPkg(ct.Pkg)
	if cpkg == nil {
		cpkg = g.pkg
	}
	pre := st.clone()
	g.bindLetsT(ct, vars, pre, pre, true)
	for i, cl := range ct.Requires {
		if !cl.active(g.prog.curProp) {
			continue
		}
		env := g.envAt(pre, pre, cpkg, vars)
		env.inGoal = true
		t := env.compileBool(cl.Expr)
		g.reportSpecErrors(env, cl)
		label := cl.Label
		if label == "" {
			label = fmt.Sprint(i)
		}
		g.newObligation("pre", shortKey(key)+"."+label, fmt.Sprintf("precondition of %s: %s  [call at %s]", trimName(key), cl.Text, g.where(in.Pos())), cl.Where, app("=>", reach, t.S))
	}
}

// ---------- channels and maps (abstract) ----------

func (g *Gen) chanEffects(v *ssa.Select, ts []T, st State, reach string) {}

// chanOpLocked: the contract's chan_ops_under discipline for one send (write=false) or close (write=true)
func (g *Gen) chanOpLocked(what string, write bool, pos token.Pos, st State, reach string) {
	if g.ct == nil || g.ct.ChanOpsUnder == nil || g.dry {
		return
	}
	env := g.envAt(st, g.entryState(), g.pkg, g.paramEnv)
	lock := env.compile(g.ct.ChanOpsUnder.Expr, nil)
	if g.reportSpecErrors(env, *g.ct.ChanOpsUnder) {
		return
	}
	h := g.stGet(st, "L.held", &Sort{K: KRaw, Name: "(Array Int Int)"})
	cond := app(">=", app("select", h, lock.S), "1")
	mode := "held"
	if write {
		cond = app("=", app("select", h, lock.S), "2")
		mode = "held for writing"
	}
	g.newObligation("lockset.chan-"+what, "", fmt.Sprintf("channel %s with the lock of %s %s", what, g.ct.ChanOpsUnder.Text, mode), g.where(pos), app("=>", reach, cond))
}

func (g *Gen) execSend(v *ssa.Send, st State, reach string) {
	g.chanOpLocked("send", false, v.Pos(), st, reach)
	g.sendHook(g.val(v.Chan), g.val(v.X), v.Chan.Type(), st, reach, v.Pos())
}

func (g *Gen) execRecv(v *ssa.UnOp, st State, reach string) {
	if v.CommaOk {
		tt := v.Type().(*types.Tuple)
		so := g.te.sortOf(tt.At(0).Type())
		x := T{S: g.fresh(v.Name()+".v", so), So: so, GoT: tt.At(0).Type()}
		ok := T{S: g.fresh(v.Name()+".ok", SBool), So: SBool}
		g.assumeTypeInv(x, st)
		g.tuples[v] = []T{x, ok}
		return
	}
	g.havocVal(v)
}

func (g *Gen) closeEffects(c *ssa.CallCommon, in ssa.Instruction, st State, reach string) {
	g.chanOpLocked("close", true, in.Pos(), st, reach)
	ch := g.val(c.Args[0])
	if _, ok := g.cs.Ghosts["chan_closed"]; ok {
		so := rawSort(g.cs.Ghosts["chan_closed"].Sort)
		h := g.stGet(st, "ghost.chan_closed", so)
		g.safety("close", "close of a channel that is not already closed", in.Pos(), reach, not(app("select", h, ch.S)))
		g.stSet(st, "ghost.chan_closed", so, app("store", h, ch.S, "true"))
	}
}

// sendHook: when the ghost variables chan_len / chan_log are declared, a send appends to the
// per-channel ghost log.
func (g *Gen) sendHook(ch, x T, chT types.Type, st State, reach string, pos token.Pos) {
	gl, ok1 := g.cs.Ghosts["chan_len"]
	if !ok1 {
		return
	}
	lso := rawSort(gl.Sort)
	hl := g.stGet(st, "ghost.chan_len", lso)
	n := app("select", hl, ch.S)
	if gv, ok := g.cs.Ghosts["chan_log"]; ok && (x.So.K == KRef || x.So.K == KInt) {
		vso := rawSort(gv.Sort)
		hv := g.stGet(st, "ghost.chan_log", vso)
		g.stSet(st, "ghost.chan_log", vso, app("store", hv, ch.S, app("store", app("select", hv, ch.S), n, x.S)))
	}
	// a slice sent on a channel is logged by its object, offset and length (ghosts chan_sobj,
	// chan_soff, chan_slen, when declared): "which part of which array went out as message n"
	if x.So.K == KSlice {
		for _, f := range [][2]string{{"chan_sobj", "s_obj"}, {"chan_soff", "s_off"}, {"chan_slen", "s_len"}} {
			if gv, ok := g.cs.Ghosts[f[0]]; ok {
				vso := rawSort(gv.Sort)
				hv := g.stGet(st, "ghost."+f[0], vso)
				g.stSet(st, "ghost."+f[0], vso, app("store", hv, ch.S, app("store", app("select", hv, ch.S), n, app(f[1], x.S))))
			}
		}
	}
	if _, ok := g.cs.Ghosts["chan_closed"]; ok {
		so := rawSort(g.cs.Ghosts["chan_closed"].Sort)
		h := g.stGet(st, "ghost.chan_closed", so)
		g.safety("send", "send on a channel that is not closed", pos, reach, not(app("select", h, ch.S)))
	}
	g.stSet(st, "ghost.chan_len", lso, app("store", hl, ch.S, app("+", n, "1")))
}

func (g *Gen) mapHeap(mt *types.Map) (string, *Sort, string, *Sort, *Sort, *Sort) {
	ks := g.te.sortOf(mt.Key())
	vs := g.te.sortOf(mt.Elem())
	key := typeKey(mt)
	return "M." + key + ".val", &Sort{K: KRaw, Name: "(Array Int (Array " + ks.Name + " " + vs.Name + "))"},
		"M." + key + ".dom", &Sort{K: KRaw, Name: "(Array Int (Array " + ks.Name + " Bool))"}, ks, vs
}

func (g *Gen) execLookup(v *ssa.Lookup, st State, reach string) {
	x := g.val(v.X)
	mt, ok := v.X.Type().Underlying().(*types.Map)
	if !ok {
		// string index
		i := g.toInt(g.val(v.Index))
		g.safety("bounds", "string index in range", v.Pos(), reach, and(app("<=", "0", i), app("<", i, app("slen", x.S))))
		g.setVal(v, app("select", app("sarr", x.S), i))
		return
	}
	vn, vso, dn, dso, ks, vs := g.mapHeap(mt)
	if ks.K == KStr || ks.K == KSlice {
		if v.CommaOk {
			x := T{S: g.fresh(v.Name()+".v", vs), So: vs, GoT: mt.Elem()}
			g.tuples[v] = []T{x, {S: g.fresh(v.Name()+".ok", SBool), So: SBool}}
		} else {
			g.havocVal(v)
		}
		g.note("map with string key at %s: lookup havocked", g.where(v.Pos()))
		return
	}
	k := g.val(v.Index)
	hv := g.stGet(st, vn, vso)
	hd := g.stGet(st, dn, dso)
	in := app("select", app("select", hd, x.S), k.S)
	val := app("ite", in, app("select", app("select", hv, x.S), k.S), g.te.zero(vs))
	if v.CommaOk {
		g.tuples[v] = []T{{S: g.define(v.Name()+".v", vs, val), So: vs, GoT: mt.Elem()}, {S: g.define(v.Name()+".ok", SBool, in), So: SBool}}
		return
	}
	g.setVal(v, val)
}

func (g *Gen) execMapUpdate(v *ssa.MapUpdate, st State, reach string) {
	x := g.val(v.Map)
	mt := v.Map.Type().Underlying().(*types.Map)
	vn, vso, dn, dso, ks, _ := g.mapHeap(mt)
	g.safety("nilmap", "assignment to entry in nil map", v.Pos(), reach, not(app("=", x.S, "0")))
	if ks.K == KStr || ks.K == KSlice {
		g.stHavoc(st, vn, vso)
		g.stHavoc(st, dn, dso)
		return
	}
	k := g.val(v.Key)
	val := g.val(v.Value)
	hv := g.stGet(st, vn, vso)
	hd := g.stGet(st, dn, dso)
	g.stSet(st, vn, vso, app("store", hv, x.S, app("store", app("select", hv, x.S), k.S, val.S)))
	g.stSet(st, dn, dso, app("store", hd, x.S, app("store", app("select", hd, x.S), k.S, "true")))
}

func (g *Gen) execMapDelete(c *ssa.CallCommon, in ssa.Instruction, st State, reach string) {
	x := g.val(c.Args[0])
	mt := c.Args[0].Type().Underlying().(*types.Map)
	_, _, dn, dso, ks, _ := g.mapHeap(mt)
	if ks.K == KStr || ks.K == KSlice {
		g.stHavoc(st, dn, dso)
		return
	}
	k := g.val(c.Args[1])
	hd := g.stGet(st, dn, dso)
	g.stSet(st, dn, dso, app("store", hd, x.S, app("store", app("select", hd, x.S), k.S, "false")))
}

func (g *Gen) lenModel(t, x T, which string, st State) {}

// pbGetter models (*T).GetF() of generated protobuf code: nil receiver gives the zero value,
// otherwise the field F.
func (g *Gen) pbGetter(v ssa.Value, c *ssa.CallCommon, st State) bool {
	f, ok := c.Value.(*ssa.Function)
	if !ok {
		return false
	}
	recv := g.val(c.Args[0])
	pt, ok := c.Args[0].Type().Underlying().(*types.Pointer)
	if !ok {
		return false
	}
	stT, ok := pt.Elem().Underlying().(*types.Struct)
	if !ok {
		return false
	}
	fname := strings.TrimPrefix(f.Name(), "Get")
	for i := 0; i < stT.NumFields(); i++ {
		fl := stT.Field(i)
		if fl.Name() != fname {
			continue
		}
		fso := g.te.sortOf(fl.Type())
		if fso.Name != g.te.sortOf(v.Type()).Name {
			return false
		}
		h := g.stGet(st, g.fieldHeapName(pt.Elem(), fl.Name()), &Sort{K: KRaw, Name: "(Array Int " + fso.Name + ")"})
		t := g.setVal(v, app("ite", app("=", recv.S, "0"), g.te.zero(fso), app("select", h, recv.S)))
		g.assumeTypeInv(t, st)
		g.assumed["protobuf getter modelled as nil-safe field read: "+trimName(f.String())] = true
		return true
	}
	// oneof getter: T has an interface field whose wrapper type T_<X> carries field X
	named, ok := pt.Elem().(*types.Named)
	if !ok || named.Obj().Pkg() == nil {
		return false
	}
	wobj := named.Obj().Pkg().Scope().Lookup(named.Obj().Name() + "_" + fname)
	if wobj == nil {
		return false
	}
	wst, ok := wobj.Type().Underlying().(*types.Struct)
	if !ok || wst.NumFields() == 0 || wst.Field(0).Name() != fname {
		return false
	}
	wptr := types.NewPointer(wobj.Type())
	for i := 0; i < stT.NumFields(); i++ {
		fl := stT.Field(i)
		it, ok := fl.Type().Underlying().(*types.Interface)
		if !ok || !types.Implements(wptr, it) {
			continue
		}
		vso := g.te.sortOf(wst.Field(0).Type())
		if vso.Name != g.te.sortOf(v.Type()).Name {
			return false
		}
		ih := g.stGet(st, g.fieldHeapName(pt.Elem(), fl.Name()), &Sort{K: KRaw, Name: "(Array Int Iface)"})
		wh := g.stGet(st, g.fieldHeapName(wobj.Type(), fname), &Sort{K: KRaw, Name: "(Array Int " + vso.Name + ")"})
		iv := app("select", ih, recv.S)
		is := and(not(app("=", recv.S, "0")), not(app("=", iv, "inil")), app("=", app("itag", iv), fmt.Sprint(g.te.tagOf(wptr))), not(app("=", app("iptr", iv), "0")))
		t := g.setVal(v, app("ite", is, app("select", wh, app("iptr", iv)), g.te.zero(vso)))
		g.assumeTypeInv(t, st)
		g.assumed["protobuf oneof getter modelled from the generated code's shape: "+trimName(f.String())] = true
		return true
	}
	return false
}

// havocScratch forgets the scratch ghosts a call does not explicitly set.
func (g *Gen) havocScratch(st State, keep map[string]bool) {
	for n, gv := range g.cs.Ghosts {
		if !gv.Scratch || keep["ghost."+n] {
			continue
		}
		if _, used := g.stSorts["ghost."+n]; !used {
			if g.curMods != nil {
				g.curMods["ghost."+n] = nil
			}
			continue
		}
		g.stHavoc(st, "ghost."+n, rawSort(gv.Sort))
	}
}

// havocNames havocs the given state components ("*struct:T" expands to all field heaps of T).
func (g *Gen) havocNames(mods map[string]bool, st State) {
	g.havocScratch(st, mods)
	a := g.stGet(st, "alloc", SMath)
	na := g.stHavoc(st, "alloc", SMath)
	g.assume(app(">=", na, a))
	for n := range mods {
		if strings.HasPrefix(n, "*struct:") {
			pre := "F." + strings.TrimPrefix(n, "*struct:") + "."
			for hn, so := range g.stSorts {
				if strings.HasPrefix(hn, pre) {
					g.stHavoc(st, hn, so)
					g.recordWrite(hn, nil)
				}
			}
			continue
		}
		so := g.stSorts[n]
		if so == nil {
			so = g.guessStateSort(n)
		}
		if so == nil {
			// a heap this function has not touched so far; remember it for loop havoc sets
			if g.curMods != nil {
				g.curMods[n] = nil
			}
			continue
		}
		g.stHavoc(st, n, so)
		g.recordWrite(n, nil)
	}
}
