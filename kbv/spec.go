package main

import (
	"fmt"
	"go/ast"
	"go/constant"
	"go/token"
	"go/types"
	"os"
	"regexp"
	"strconv"
	"strings"
)

// ---------- spec functions (raw SMT-LIB, from /verif/spec/*.smt2) ----------

type SpecParam struct {
	Name string
	Sort string
}

type SpecFunc struct {
	Name   string
	Params []SpecParam
	Ret    string
}

type SpecLib struct {
	Text        string // common text (everything outside opaque blocks)
	Funcs       map[string]*SpecFunc
	acc         map[string]string
	Opaque      map[string][2]string // name -> {revealed text, hidden text (declaration + proved axioms)}
	OpaqueOrder []string
}

// TextUsed is TextFor restricted to the opaque symbols that the query text mentions (their
// axioms are quantified and would only make satisfiability checks inconclusive elsewhere).
func (lib *SpecLib) TextUsed(reveal map[string]bool, query string) string {
	var sb strings.Builder
	sb.WriteString(lib.Text)
	for _, n := range lib.OpaqueOrder {
		if !strings.Contains(query, "("+n+" ") {
			continue
		}
		if reveal[n] {
			sb.WriteString(lib.Opaque[n][0])
		} else {
			sb.WriteString(lib.Opaque[n][1])
		}
	}
	return sb.String()
}

// TextFor renders the library with the given opaque definitions revealed.
func (lib *SpecLib) TextFor(reveal map[string]bool) string {
	var sb strings.Builder
	sb.WriteString(lib.Text)
	for _, n := range lib.OpaqueOrder {
		if reveal[n] {
			sb.WriteString(lib.Opaque[n][0])
		} else {
			sb.WriteString(lib.Opaque[n][1])
		}
	}
	return sb.String()
}

// parseSexps splits text into top-level s-expressions (comments stripped).
func parseSexps(text string) []string {
	var out []string
	var sb strings.Builder
	for _, l := range strings.Split(text, "\n") {
		if i := strings.Index(l, ";"); i >= 0 {
			l = l[:i]
		}
		sb.WriteString(l)
		sb.WriteString("\n")
	}
	s := sb.String()
	depth := 0
	start := -1
	for i := 0; i < len(s); i++ {
		switch s[i] {
		case '|':
			i++
			for i < len(s) && s[i] != '|' {
				i++
			}
		case '(':
			if depth == 0 {
				start = i
			}
			depth++
		case ')':
			depth--
			if depth == 0 && start >= 0 {
				out = append(out, s[start:i+1])
				start = -1
			}
		}
	}
	return out
}

// tokens of one s-expression one level down
func sexpChildren(s string) []string {
	s = strings.TrimSpace(s)
	if !strings.HasPrefix(s, "(") {
		return nil
	}
	s = s[1 : len(s)-1]
	var out []string
	i := 0
	for i < len(s) {
		c := s[i]
		if c == ' ' || c == '\n' || c == '\t' || c == '\r' {
			i++
			continue
		}
		if c == '(' {
			d := 0
			j := i
			for j < len(s) {
				if s[j] == '|' {
					j++
					for j < len(s) && s[j] != '|' {
						j++
					}
				} else if s[j] == '(' {
					d++
				} else if s[j] == ')' {
					d--
					if d == 0 {
						break
					}
				}
				j++
			}
			out = append(out, s[i:j+1])
			i = j + 1
			continue
		}
		if c == '|' {
			j := i + 1
			for j < len(s) && s[j] != '|' {
				j++
			}
			out = append(out, s[i:j+1])
			i = j + 1
			continue
		}
		j := i
		for j < len(s) && !strings.ContainsRune(" \n\t\r()", rune(s[j])) {
			j++
		}
		out = append(out, s[i:j])
		i = j
	}
	return out
}

func loadSpecLib(files []string) (*SpecLib, error) {
	lib := &SpecLib{Funcs: map[string]*SpecFunc{}, Opaque: map[string][2]string{}}
	reOp := regexp.MustCompile(`^;\s*opaque-(begin|else|end)\s*(\S*)`)
	for _, f := range files {
		b, err := os.ReadFile(f)
		if err != nil {
			return nil, err
		}
		// split into common / revealed / hidden segments
		mode := "common"
		cur := ""
		var common, rev, hid strings.Builder
		for _, l := range strings.Split(string(b), "\n") {
			if m := reOp.FindStringSubmatch(strings.TrimSpace(l)); m != nil {
				switch m[1] {
				case "begin":
					mode, cur = "rev", m[2]
					rev.Reset()
					hid.Reset()
				case "else":
					mode = "hid"
				case "end":
					lib.Opaque[cur] = [2]string{rev.String(), hid.String()}
					lib.OpaqueOrder = append(lib.OpaqueOrder, cur)
					mode = "common"
				}
				continue
			}
			switch mode {
			case "common":
				common.WriteString(l + "\n")
			case "rev":
				rev.WriteString(l + "\n")
			case "hid":
				hid.WriteString(l + "\n")
			}
		}
		texts := []string{common.String()}
		for _, n := range lib.OpaqueOrder {
			texts = append(texts, lib.Opaque[n][0])
		}
		for ti, text := range texts {
			for _, sx := range parseSexps(text) {
				ch := sexpChildren(sx)
				if len(ch) == 0 {
					continue
				}
				switch ch[0] {
				case "define-fun", "define-fun-rec":
					if len(ch) < 5 {
						return nil, fmt.Errorf("%s: bad define-fun %s", f, sx)
					}
					sf := &SpecFunc{Name: ch[1], Ret: ch[3]}
					for _, p := range sexpChildren(ch[2]) {
						pc := sexpChildren(p)
						sf.Params = append(sf.Params, SpecParam{Name: pc[0], Sort: pc[1]})
					}
					lib.Funcs[sf.Name] = sf
				case "declare-fun":
					sf := &SpecFunc{Name: ch[1], Ret: ch[3]}
					ps := sexpChildren(ch[2])
					for i := 0; i < len(ps); i++ {
						if ps[i] == "(Array Int (_ BitVec 8))" && i+2 < len(ps) && ps[i+1] == "Int" && ps[i+2] == "Int" {
							sf.Params = append(sf.Params, SpecParam{Name: fmt.Sprintf("b%d!arr", i), Sort: ps[i]}, SpecParam{Name: fmt.Sprintf("b%d!off", i), Sort: "Int"}, SpecParam{Name: fmt.Sprintf("b%d!len", i), Sort: "Int"})
							i += 2
							continue
						}
						sf.Params = append(sf.Params, SpecParam{Name: fmt.Sprintf("p%d", i), Sort: ps[i]})
					}
					lib.Funcs[sf.Name] = sf
				case "declare-const":
					lib.Funcs[ch[1]] = &SpecFunc{Name: ch[1], Ret: ch[2]}
				}
				if ti == 0 {
					lib.Text += sx + "\n"
				}
			}
		}
		// opaque texts keep their assert lines verbatim
	}
	// normalise opaque segments (strip comments)
	for n, p := range lib.Opaque {
		var a, b strings.Builder
		for _, sx := range parseSexps(p[0]) {
			a.WriteString(sx + "\n")
		}
		for _, sx := range parseSexps(p[1]) {
			b.WriteString(sx + "\n")
		}
		lib.Opaque[n] = [2]string{a.String(), b.String()}
	}
	return lib, nil
}

// ---------- symbolic state ----------

// State maps a heap / ghost / cell name to its current SMT term.
type State map[string]string

func (s State) clone() State {
	n := make(State, len(s))
	for k, v := range s {
		n[k] = v
	}
	return n
}

// ---------- expression environment ----------

type Env struct {
	g     *Gen
	vars  map[string]T
	st    State
	old   State
	bound map[string]T
	pkg   *types.Package
	// inGoal reports whether the expression is compiled as a proof goal
	// (exists-witnesses are instantiated) or as a hypothesis.
	inGoal bool
	errs   []string
	// anchored index quantifier: anchorText[anchorVar] compiles to anchorElem
	anchorText string
	anchorVar  string
	anchorElem T
}

func (e *Env) child() *Env {
	n := *e
	n.bound = map[string]T{}
	for k, v := range e.bound {
		n.bound[k] = v
	}
	return &n
}

func (e *Env) fail(format string, a ...interface{}) T {
	if len(e.errs) == 0 {
		e.errs = append(e.errs, fmt.Sprintf(format, a...))
	}
	return T{S: "false", So: SBool}
}

func isLiteral(x ast.Expr) bool {
	switch v := x.(type) {
	case *ast.BasicLit:
		return true
	case *ast.ParenExpr:
		return isLiteral(v.X)
	case *ast.UnaryExpr:
		return isLiteral(v.X)
	case *ast.BinaryExpr:
		return isLiteral(v.X) && isLiteral(v.Y)
	}
	return false
}

func evalLiteral(x ast.Expr) (int64, bool) {
	switch v := x.(type) {
	case *ast.BasicLit:
		switch v.Kind {
		case token.INT:
			n, err := strconv.ParseInt(v.Value, 0, 64)
			if err != nil {
				u, err2 := strconv.ParseUint(v.Value, 0, 64)
				if err2 != nil {
					return 0, false
				}
				return int64(u), true
			}
			return n, true
		case token.CHAR:
			r, _, _, err := strconv.UnquoteChar(v.Value[1:len(v.Value)-1], '\'')
			if err != nil {
				return 0, false
			}
			return int64(r), true
		}
	case *ast.ParenExpr:
		return evalLiteral(v.X)
	case *ast.UnaryExpr:
		n, ok := evalLiteral(v.X)
		if v.Op == token.SUB {
			return -n, ok
		}
		return n, ok
	case *ast.BinaryExpr:
		a, ok1 := evalLiteral(v.X)
		b, ok2 := evalLiteral(v.Y)
		if !ok1 || !ok2 {
			return 0, false
		}
		switch v.Op {
		case token.ADD:
			return a + b, true
		case token.SUB:
			return a - b, true
		case token.MUL:
			return a * b, true
		case token.SHL:
			return a << uint(b), true
		}
	}
	return 0, false
}

func litTerm(n int64, want *Sort) T {
	if want != nil && want.K == KBV {
		return T{S: bvLit(uint64(n), want.W), So: want}
	}
	if want != nil && want.K == KReal {
		return T{S: fmt.Sprintf("%d.0", n), So: SReal}
	}
	so := SMath
	if want != nil && want.K == KInt {
		so = want
	}
	return T{S: intLit(n), So: so}
}

func (e *Env) compileBool(x ast.Expr) T {
	t := e.compile(x, SBool)
	if t.So.K != KBool {
		return e.fail("expected Bool, got %s in %s", t.So.Name, exprString(x))
	}
	return t
}

func exprString(x ast.Expr) string {
	return types.ExprString(x)
}

func (e *Env) compile(x ast.Expr, want *Sort) T {
	g := e.g
	switch v := x.(type) {
	case *ast.ParenExpr:
		return e.compile(v.X, want)
	case *ast.BasicLit:
		switch v.Kind {
		case token.INT, token.CHAR:
			n, ok := evalLiteral(v)
			if !ok {
				return e.fail("bad literal %s", v.Value)
			}
			if v.Kind == token.CHAR && want == nil {
				want = SBV8
			}
			return litTerm(n, want)
		case token.STRING:
			s, err := strconv.Unquote(v.Value)
			if err != nil {
				return e.fail("bad string literal")
			}
			return g.strConst(s)
		}
		return e.fail("unsupported literal %s", v.Value)
	case *ast.Ident:
		return e.ident(v.Name, want)
	case *ast.UnaryExpr:
		switch v.Op {
		case token.NOT:
			t := e.compileBool(v.X)
			return T{S: not(t.S), So: SBool}
		case token.SUB:
			if n, ok := evalLiteral(v); ok {
				return litTerm(n, want)
			}
			t := e.compile(v.X, want)
			if t.So.K == KBV {
				return T{S: app("bvneg", t.S), So: t.So}
			}
			return T{S: app("-", t.S), So: t.So}
		}
		return e.fail("unsupported unary %s", v.Op)
	case *ast.BinaryExpr:
		return e.binary(v, want)
	case *ast.CallExpr:
		return e.call(v, want)
	case *ast.IndexExpr:
		if e.anchorVar != "" {
			if id, ok := v.Index.(*ast.Ident); ok && id.Name == e.anchorVar && exprString(v.X) == e.anchorText {
				return e.anchorElem
			}
		}
		base := e.compile(v.X, nil)
		idx := e.compile(v.Index, SMath)
		switch base.So.K {
		case KSlice:
			el, elT := g.elemOf(base.GoT)
			if el == nil {
				// a ghost slice value without a Go type: a byte slice
				el, elT = SBV8, types.Typ[types.Uint8]
			}
			h := g.stGet(e.st, g.elemHeapName(elT), g.elemHeapSort(el))
			return T{S: app("select", app("select", h, app("s_obj", base.S)), app("+", app("s_off", base.S), idx.S)), So: el, GoT: elT}
		case KStr:
			return T{S: app("select", app("sarr", base.S), idx.S), So: SBV8}
		case KArray:
			var elT types.Type
			if base.GoT != nil {
				if a, ok := base.GoT.Underlying().(*types.Array); ok {
					elT = a.Elem()
				}
			}
			return T{S: app("select", base.S, idx.S), So: base.So.Elem, GoT: elT}
		case KRaw:
			// ghost array: element sort parsed from "(Array I E)"
			ch := sexpChildren(base.So.Name)
			if len(ch) == 3 && ch[0] == "Array" {
				ix := e.compile(v.Index, rawSort(ch[1]))
				return T{S: app("select", base.S, ix.S), So: rawSort(ch[2])}
			}
		}
		return e.fail("cannot index %s of sort %s", exprString(v.X), base.So.Name)
	case *ast.SliceExpr:
		base := e.compile(v.X, nil)
		if base.So.K != KSlice {
			return e.fail("cannot slice %s", exprString(v.X))
		}
		lo := "0"
		if v.Low != nil {
			lo = e.compile(v.Low, SMath).S
		}
		hi := app("s_len", base.S)
		if v.High != nil {
			hi = e.compile(v.High, SMath).S
		}
		return T{S: app("mkslice", app("s_obj", base.S), app("+", app("s_off", base.S), lo), app("-", hi, lo), app("-", app("s_cap", base.S), lo)), So: SSlice, GoT: base.GoT}
	case *ast.SelectorExpr:
		// package-qualified name?
		if id, ok := v.X.(*ast.Ident); ok {
			if _, isVar := e.lookupVar(id.Name); !isVar {
				if p := g.importedPkg(e.pkg, id.Name); p != nil {
					return e.pkgMember(p, v.Sel.Name, want)
				}
			}
		}
		base := e.compile(v.X, nil)
		return e.selectField(base, v.Sel.Name, exprString(v))
	case *ast.StarExpr:
		base := e.compile(v.X, nil)
		if base.So.K == KRef && base.GoT != nil {
			if p, ok := base.GoT.Underlying().(*types.Pointer); ok {
				so := g.te.sortOf(p.Elem())
				h := g.stGet(e.st, "P."+typeKey(p.Elem()), &Sort{K: KRaw, Name: "(Array Int " + so.Name + ")"})
				return T{S: app("select", h, base.S), So: so, GoT: p.Elem()}
			}
		}
		return e.fail("cannot deref %s", exprString(v.X))
	}
	return e.fail("unsupported expression %s", exprString(x))
}

func (e *Env) lookupVar(name string) (T, bool) {
	if t, ok := e.bound[name]; ok {
		return t, true
	}
	if t, ok := e.vars[name]; ok {
		return t, true
	}
	return T{}, false
}

func (e *Env) ident(name string, want *Sort) T {
	g := e.g
	if t, ok := e.lookupVar(name); ok {
		return t
	}
	switch name {
	case "true", "false":
		return T{S: name, So: SBool}
	case "nil":
		if want != nil {
			switch want.K {
			case KSlice:
				return T{S: "nil_slice", So: SSlice}
			case KIface:
				return T{S: "inil", So: SIface}
			}
		}
		return T{S: "0", So: SRef}
	case "MaxUint64":
		return T{S: "#xffffffffffffffff", So: SBV64}
	case "alloc":
		return T{S: g.stGet(e.st, "alloc", SMath), So: SMath}
	case "heap_bytes":
		so := g.elemHeapSort(SBV8)
		return T{S: g.stGet(e.st, "E.uint8", so), So: so}
	}
	if gv, ok := g.cs.Ghosts[name]; ok {
		so := rawSort(gv.Sort)
		return T{S: g.stGet(e.st, "ghost."+name, so), So: so}
	}
	if sf, ok := g.lib.Funcs[name]; ok && len(sf.Params) == 0 {
		return T{S: name, So: rawSort(sf.Ret)}
	}
	if e.pkg != nil {
		return e.pkgMember(e.pkg, name, want)
	}
	return e.fail("unknown identifier %s", name)
}

func (e *Env) pkgMember(p *types.Package, name string, want *Sort) T {
	g := e.g
	obj := p.Scope().Lookup(name)
	if obj == nil {
		return e.fail("unknown identifier %s.%s", p.Name(), name)
	}
	switch o := obj.(type) {
	case *types.Const:
		return g.constTerm(o.Val(), o.Type(), want)
	case *types.Var:
		so := g.te.sortOf(o.Type())
		return T{S: g.stGet(e.st, g.globalName(o), so), So: so, GoT: o.Type()}
	}
	return e.fail("identifier %s.%s is not a value", p.Name(), name)
}

func (g *Gen) constTerm(val constant.Value, typ types.Type, want *Sort) T {
	so := g.te.sortOf(typ)
	if b, ok := typ.Underlying().(*types.Basic); ok && b.Info()&types.IsUntyped != 0 && want != nil {
		so = want
	}
	switch val.Kind() {
	case constant.Bool:
		if constant.BoolVal(val) {
			return T{S: "true", So: SBool}
		}
		return T{S: "false", So: SBool}
	case constant.Int:
		if so.K == KBV {
			u, _ := constant.Uint64Val(val)
			if i, ok := constant.Int64Val(val); ok && i < 0 {
				u = uint64(i)
			}
			return T{S: bvLit(u, so.W), So: so, GoT: typ}
		}
		if so.K == KReal {
			i, _ := constant.Int64Val(val)
			return T{S: fmt.Sprintf("%d.0", i), So: SReal, GoT: typ}
		}
		i, ok := constant.Int64Val(val)
		if !ok {
			return T{S: val.ExactString(), So: SMath, GoT: typ}
		}
		if so.K != KInt {
			so = SMath
		}
		return T{S: intLit(i), So: so, GoT: typ}
	case constant.String:
		t := g.strConst(constant.StringVal(val))
		t.GoT = typ
		return t
	case constant.Float:
		f, _ := constant.Float64Val(val)
		return T{S: strconv.FormatFloat(f, 'f', -1, 64), So: SReal, GoT: typ}
	}
	return T{S: "0", So: SRef, GoT: typ}
}

func (e *Env) selectField(base T, name string, ctx string) T {
	g := e.g
	if base.So.K == KSlice {
		switch name {
		case "obj", "off", "len", "cap":
			return T{S: app("s_"+name, base.S), So: SMath}
		}
	}
	if base.GoT == nil {
		// raw datatypes / builtin sorts
		switch base.So.K {
		case KRaw:
			return T{S: app(name, base.S), So: g.rawAccessorSort(name)}
		}
		return e.fail("selector %s on value without Go type", ctx)
	}
	obj, path, _ := types.LookupFieldOrMethod(base.GoT, true, e.pkg, name)
	fv, ok := obj.(*types.Var)
	if !ok || fv == nil {
		// retry with the declaring package of the type (unexported fields)
		if n := namedOf(base.GoT); n != nil && n.Obj().Pkg() != nil {
			obj, path, _ = types.LookupFieldOrMethod(base.GoT, true, n.Obj().Pkg(), name)
			fv, ok = obj.(*types.Var)
		}
		if !ok || fv == nil {
			return e.fail("no field %s in %s (%s)", name, base.GoT, ctx)
		}
	}
	cur := base
	for _, idx := range path {
		cur = g.fieldStep(e.st, cur, idx)
		if cur.So == nil {
			return e.fail("cannot follow field path in %s", ctx)
		}
	}
	return cur
}

func namedOf(t types.Type) *types.Named {
	if p, ok := t.(*types.Pointer); ok {
		t = p.Elem()
	}
	n, _ := t.(*types.Named)
	return n
}

// fieldStep selects field idx of cur (pointer to struct: heap load; struct value: accessor).
func (g *Gen) fieldStep(st State, cur T, idx int) T {
	t := cur.GoT
	if p, ok := t.Underlying().(*types.Pointer); ok {
		stT, ok := p.Elem().Underlying().(*types.Struct)
		if !ok {
			return T{}
		}
		f := stT.Field(idx)
		fs := g.te.sortOf(f.Type())
		h := g.stGet(st, g.fieldHeapName(p.Elem(), f.Name()), &Sort{K: KRaw, Name: "(Array Int " + fs.Name + ")"})
		return T{S: app("select", h, cur.S), So: fs, GoT: f.Type()}
	}
	if _, ok := t.Underlying().(*types.Struct); ok {
		so := g.te.sortOf(t)
		f := so.Fields[idx]
		return T{S: app(f.Acc, cur.S), So: f.So, GoT: f.GoT}
	}
	return T{}
}

var reArith = map[token.Token][2]string{
	token.ADD: {"+", "bvadd"},
	token.SUB: {"-", "bvsub"},
	token.MUL: {"*", "bvmul"},
	token.LSS: {"<", "bvult"},
	token.LEQ: {"<=", "bvule"},
	token.GTR: {">", "bvugt"},
	token.GEQ: {">=", "bvuge"},
}

func (e *Env) binary(v *ast.BinaryExpr, want *Sort) T {
	switch v.Op {
	case token.LAND, token.LOR:
		a := e.compileBool(v.X)
		b := e.compileBool(v.Y)
		if v.Op == token.LAND {
			return T{S: and(a.S, b.S), So: SBool}
		}
		return T{S: or(a.S, b.S), So: SBool}
	}
	var a, b T
	isCmp := v.Op == token.EQL || v.Op == token.NEQ || v.Op == token.LSS || v.Op == token.LEQ || v.Op == token.GTR || v.Op == token.GEQ
	w := want
	if isCmp {
		w = nil
	}
	if isLiteral(v.X) && !isLiteral(v.Y) || isNilIdent(v.X) {
		b = e.compile(v.Y, w)
		a = e.compile(v.X, b.So)
	} else {
		a = e.compile(v.X, w)
		b = e.compile(v.Y, a.So)
	}
	if a.So.K != b.So.K || (a.So.K == KBV && a.So.W != b.So.W) || ((a.So.K == KRaw || a.So.K == KData) && a.So.Name != b.So.Name) {
		return e.fail("sort mismatch in %s: %s vs %s", exprString(v), a.So.Name, b.So.Name)
	}
	bv := a.So.K == KBV
	pick := func(p [2]string) string {
		if bv {
			return p[1]
		}
		return p[0]
	}
	switch v.Op {
	case token.EQL, token.NEQ:
		var s string
		if a.So.K == KStr {
			s = app("str_eq", a.S, b.S)
		} else {
			s = app("=", a.S, b.S)
		}
		if v.Op == token.NEQ {
			s = not(s)
		}
		return T{S: s, So: SBool}
	case token.LSS, token.LEQ, token.GTR, token.GEQ:
		if a.So.K != KInt && a.So.K != KBV && a.So.K != KReal {
			return e.fail("ordering on sort %s in %s", a.So.Name, exprString(v))
		}
		return T{S: app(pick(reArith[v.Op]), a.S, b.S), So: SBool}
	case token.ADD, token.SUB, token.MUL:
		if a.So.K != KInt && a.So.K != KBV && a.So.K != KReal {
			return e.fail("arithmetic on sort %s in %s", a.So.Name, exprString(v))
		}
		// spec arithmetic on Int is mathematical (no wrap)
		so := a.So
		if so.K == KInt {
			so = SMath
		}
		return T{S: app(pick(reArith[v.Op]), a.S, b.S), So: so}
	case token.QUO:
		if bv {
			return T{S: app("bvudiv", a.S, b.S), So: a.So}
		}
		return T{S: app("go_div", a.S, b.S), So: SMath}
	case token.REM:
		if bv {
			return T{S: app("bvurem", a.S, b.S), So: a.So}
		}
		return T{S: app("go_mod", a.S, b.S), So: SMath}
	case token.AND:
		if bv {
			return T{S: app("bvand", a.S, b.S), So: a.So}
		}
	case token.OR:
		if bv {
			return T{S: app("bvor", a.S, b.S), So: a.So}
		}
	case token.SHL:
		if bv {
			return T{S: app("bvshl", a.S, b.S), So: a.So}
		}
	case token.SHR:
		if bv {
			return T{S: app("bvlshr", a.S, b.S), So: a.So}
		}
	}
	return e.fail("unsupported binary op in %s", exprString(v))
}

func isNilIdent(x ast.Expr) bool {
	id, ok := x.(*ast.Ident)
	return ok && id.Name == "nil"
}

var reBoundConv = regexp.MustCompile(`^(uint64|uint32|uint16|byte|uint8|int|Slice|Iface|Str|bool)$`)

func (e *Env) boundVar(x ast.Expr) (string, *Sort, bool) {
	switch v := x.(type) {
	case *ast.Ident:
		return v.Name, SMath, true
	case *ast.CallExpr:
		if id, ok := v.Fun.(*ast.Ident); ok && len(v.Args) == 1 {
			if a, ok := v.Args[0].(*ast.Ident); ok {
				switch id.Name {
				case "uint64":
					return a.Name, SBV64, true
				case "uint32":
					return a.Name, SBV32, true
				case "uint16":
					return a.Name, SBV16, true
				case "byte", "uint8":
					return a.Name, SBV8, true
				case "int":
					return a.Name, SMath, true
				case "Slice":
					return a.Name, SSlice, true
				case "Iface":
					return a.Name, SIface, true
				case "bool":
					return a.Name, SBool, true
				}
				if gs, ok := e.g.lib.Funcs["sort!"+id.Name]; ok {
					return a.Name, rawSort(gs.Ret), true
				}
				return a.Name, rawSort(id.Name), true
			}
		}
	}
	return "", nil, false
}

func (e *Env) call(v *ast.CallExpr, want *Sort) T {
	g := e.g
	fn, ok := v.Fun.(*ast.Ident)
	if !ok {
		// pkg.Func(...) spec-level? only conversions like proto.Event_EventType(x) are not supported
		return e.fail("unsupported call %s", exprString(v))
	}
	name := fn.Name
	nargs := len(v.Args)
	switch name {
	case "old":
		if nargs != 1 {
			return e.fail("old takes one argument")
		}
		n := *e
		n.st = e.old
		n.anchorText = "" // s[k] inside old() is the element in the old state, not the quantifier's anchor term
		if g.calleeDepth == 0 && g.paramEnv != nil {
			// in the function's own clauses old(p) of a parameter the body reassigns is the
			// value it was called with, not the loop variable it has become
			nv := make(map[string]T, len(e.vars))
			for k, x := range e.vars {
				nv[k] = x
			}
			for k, x := range g.paramEnv {
				if _, ok := nv[k]; ok {
					nv[k] = x
				}
			}
			n.vars = nv
		}
		t := n.compile(v.Args[0], want)
		e.errs = n.errs
		return t
	case "head":
		// the value of an expression at the head of the loop iteration being closed (step lemmas)
		if g.curHead == nil || g.headSt[g.curHead] == nil {
			return e.fail("head(): only meaningful in a step lemma")
		}
		n := *e
		n.st = g.headSt[g.curHead]
		n.vars = g.headVars[g.curHead]
		n.anchorText = "" // s[k] inside head() is the element at the loop head
		t := n.compile(v.Args[0], want)
		e.errs = n.errs
		return t
	case "locked":
		// the value of an expression right after the function acquired its lock
		if g.callLocked != nil {
			// in a callee's contract applied at a call site: the state at the callee's lock
			// acquisition is unknown to the caller -- an unconstrained value, one per expression
			key := exprString(v.Args[0])
			if t, ok := g.callLocked[key]; ok {
				return t
			}
			t := e.compile(v.Args[0], want)
			if len(e.errs) > 0 {
				return t
			}
			t.S = g.fresh("locked", t.So)
			g.callLocked[key] = t
			return t
		}
		if g.lockSt == nil {
			return e.fail("locked(): no lock acquired in this function before this point")
		}
		n := *e
		n.st = g.lockSt
		t := n.compile(v.Args[0], want)
		e.errs = n.errs
		return t
	case "holds", "holds_w":
		t := e.compile(v.Args[0], nil)
		h := g.stGet(e.st, "L.held", &Sort{K: KRaw, Name: "(Array Int Int)"})
		if name == "holds_w" {
			return T{S: app("=", app("select", h, t.S), "2"), So: SBool}
		}
		return T{S: app(">=", app("select", h, t.S), "1"), So: SBool}
	case "len", "cap":
		if nargs != 1 {
			return e.fail("%s takes one argument", name)
		}
		t := e.compile(v.Args[0], nil)
		switch t.So.K {
		case KSlice:
			return T{S: app("s_"+name, t.S), So: SMath}
		case KStr:
			return T{S: app("slen", t.S), So: SMath}
		case KArray:
			return T{S: fmt.Sprint(t.So.W), So: SMath}
		}
		return e.fail("len of sort %s", t.So.Name)
	case "touch":
		// touch(s[k]): true; only makes s[k] the instantiation pattern of the enclosing quantifier
		_ = e.compile(v.Args[0], nil)
		return T{S: "true", So: SBool}
	case "implies":
		if nargs != 2 {
			return e.fail("implies takes two arguments")
		}
		h := *e
		h.inGoal = false
		a := h.compileBool(v.Args[0])
		e.errs = h.errs
		b := e.compileBool(v.Args[1])
		return T{S: app("=>", a.S, b.S), So: SBool}
	case "iff":
		a := e.compileBool(v.Args[0])
		b := e.compileBool(v.Args[1])
		return T{S: app("=", a.S, b.S), So: SBool}
	case "ite":
		if nargs != 3 {
			return e.fail("ite takes three arguments")
		}
		c := e.compileBool(v.Args[0])
		a := e.compile(v.Args[1], want)
		b := e.compile(v.Args[2], a.So)
		return T{S: app("ite", c.S, a.S, b.S), So: a.So, GoT: a.GoT}
	case "forall", "exists":
		if nargs < 2 {
			return e.fail("%s needs a bound variable and a body", name)
		}
		bn, bs, ok := e.boundVar(v.Args[0])
		if !ok {
			return e.fail("bad bound variable in %s", exprString(v))
		}
		c := e.child()
		c.bound[bn] = T{S: bn, So: bs}
		if name == "forall" {
			// index quantifier: when the bound variable indexes a slice s directly (s[k]),
			// quantify over the absolute position j = s.off + k instead, so that the
			// element term is (select arr j) and can serve as the instantiation pattern
			if bs.K == KInt {
				if anchor := findAnchor(v.Args[1:], bn); anchor != nil {
					if t, ok := e.anchoredForall(v, bn, anchor); ok {
						return t
					}
				}
			}
			var body T
			if nargs == 3 {
				cond := c.compileBool(v.Args[1])
				body = c.compileBool(v.Args[2])
				body = T{S: app("=>", cond.S, body.S), So: SBool}
			} else {
				body = c.compileBool(v.Args[1])
			}
			e.errs = c.errs
			return T{S: fmt.Sprintf("(forall ((%s %s)) %s)", bn, bs.Name, body.S), So: SBool}
		}
		// exists(i, cond, body [, witness])
		if nargs == 4 && e.inGoal {
			w := e.compile(v.Args[3], bs)
			c.bound[bn] = T{S: w.S, So: bs}
			cond := c.compileBool(v.Args[1])
			body := c.compileBool(v.Args[2])
			e.errs = c.errs
			return T{S: and(cond.S, body.S), So: SBool}
		}
		var body T
		if nargs >= 3 {
			cond := c.compileBool(v.Args[1])
			b2 := c.compileBool(v.Args[2])
			body = T{S: and(cond.S, b2.S), So: SBool}
		} else {
			body = c.compileBool(v.Args[1])
		}
		e.errs = c.errs
		return T{S: fmt.Sprintf("(exists ((%s %s)) %s)", bn, bs.Name, body.S), So: SBool}
	case "uint64", "uint32", "uint16", "byte", "uint8", "int", "int64", "int32":
		if nargs != 1 {
			return e.fail("conversion takes one argument")
		}
		var target *Sort
		switch name {
		case "uint64":
			target = SBV64
		case "uint32":
			target = SBV32
		case "uint16":
			target = SBV16
		case "byte", "uint8":
			target = SBV8
		case "int", "int64":
			target = SMath
		case "int32":
			target = SMath
		}
		if isLiteral(v.Args[0]) {
			n, _ := evalLiteral(v.Args[0])
			return litTerm(n, target)
		}
		t := e.compile(v.Args[0], nil)
		if (name == "int" || name == "int64") && t.So.K == KBV && t.So.W == 64 {
			// Go's conversion of a uint64 wraps into the signed range
			return T{S: convertTerm(t.S, t.So, SInt), So: SMath}
		}
		return T{S: convertTerm(t.S, t.So, target), So: target}
	case "step_old", "step_new":
		key := exprString(v.Args[0])
		hs := g.resolveDesignator(key, e.pkg)
		if len(hs) != 1 {
			return e.fail("bad location %s", key)
		}
		sv, ok := g.stepVals[hs[0]]
		if !ok {
			return e.fail("no atomic step on %s in this function", key)
		}
		if name == "step_old" {
			return sv[0]
		}
		return sv[1]
	case "upd":
		if nargs != 3 {
			return e.fail("upd takes three arguments")
		}
		a := e.compile(v.Args[0], nil)
		ch := sexpChildren(a.So.Name)
		if len(ch) != 3 || ch[0] != "Array" {
			return e.fail("upd on non-array sort %s", a.So.Name)
		}
		i := e.compile(v.Args[1], rawSort(ch[1]))
		x := e.compile(v.Args[2], rawSort(ch[2]))
		return T{S: app("store", a.S, i.S, x.S), So: a.So}
	case "asptr":
		// asptr(x, "*pkg.T"): payload of interface value x viewed as a pointer of that type
		t := e.compile(v.Args[0], SIface)
		lit, ok := v.Args[1].(*ast.BasicLit)
		if !ok {
			return e.fail("asptr needs a string literal")
		}
		s, _ := strconv.Unquote(lit.Value)
		gt := g.prog.lookupType(s)
		if gt == nil {
			return e.fail("asptr: unknown type %s", s)
		}
		return T{S: app("iptr", t.S), So: SRef, GoT: gt}
	case "asref":
		// asref(x, "*pkg.T"): an object id viewed as a pointer of that type
		t := e.compile(v.Args[0], nil)
		lit, ok := v.Args[1].(*ast.BasicLit)
		if !ok {
			return e.fail("asref needs a string literal")
		}
		s, _ := strconv.Unquote(lit.Value)
		gt := g.prog.lookupType(s)
		if gt == nil {
			return e.fail("asref: unknown type %s", s)
		}
		return T{S: t.S, So: SRef, GoT: gt}
	case "fresh":
		t := e.compile(v.Args[0], nil)
		a0 := g.stGet(e.old, "alloc", SMath)
		switch t.So.K {
		case KSlice:
			return T{S: app(">", app("s_obj", t.S), a0), So: SBool}
		case KRef:
			return T{S: app(">", t.S, a0), So: SBool}
		}
		return e.fail("fresh of sort %s", t.So.Name)
	case "is_nil":
		t := e.compile(v.Args[0], nil)
		switch t.So.K {
		case KSlice:
			return T{S: app("=", app("s_obj", t.S), "0"), So: SBool}
		case KRef:
			return T{S: app("=", t.S, "0"), So: SBool}
		case KIface:
			return T{S: app("=", t.S, "inil"), So: SBool}
		}
		return e.fail("is_nil of sort %s", t.So.Name)
	case "str":
		// str(bytes): abstraction of a byte slice into Str is not available; use spec functions on Bytes
		return e.fail("str() not supported")
	case "typeis":
		// typeis(x, "pkg.T") : dynamic type of interface value x is *T / T as named by the string
		t := e.compile(v.Args[0], SIface)
		lit, ok := v.Args[1].(*ast.BasicLit)
		if !ok {
			return e.fail("typeis needs a string literal")
		}
		s, _ := strconv.Unquote(lit.Value)
		tag, ok2 := g.te.tags[s]
		if !ok2 {
			tag = g.tagByName(s)
		}
		return T{S: and(not(app("=", t.S, "inil")), app("=", app("itag", t.S), fmt.Sprint(tag))), So: SBool}
	}
	if pd, ok := g.cs.Preds[name]; ok {
		if nargs != len(pd.Params) {
			return e.fail("wrong number of arguments to predicate %s", name)
		}
		c := e.child()
		c.vars = map[string]T{}
		for i, pn := range pd.Params {
			c.vars[pn] = e.compile(v.Args[i], nil)
		}
		if pp := g.prog.typesPkg(pd.Pkg); pp != nil {
			c.pkg = pp
		}
		t := c.compile(pd.Body.Expr, want)
		e.errs = append(e.errs, c.errs...)
		return t
	}
	// spec function
	if name == "err_is" {
		g.needErrIs()
	}
	sf, ok := g.lib.Funcs[name]
	if !ok {
		return e.fail("unknown spec function %s", name)
	}
	var args []string
	pi := 0
	for _, a := range v.Args {
		if pi >= len(sf.Params) {
			return e.fail("too many arguments to %s", name)
		}
		p := sf.Params[pi]
		if strings.HasSuffix(p.Name, "!arr") {
			t := e.compile(a, nil)
			switch t.So.K {
			case KSlice:
				_, elT := g.elemOf(t.GoT)
				var h string
				if elT == nil {
					h = g.stGet(e.st, "E.uint8", g.elemHeapSort(SBV8))
				} else {
					el := g.te.sortOf(elT)
					h = g.stGet(e.st, g.elemHeapName(elT), g.elemHeapSort(el))
				}
				args = append(args, app("select", h, app("s_obj", t.S)), app("s_off", t.S), app("s_len", t.S))
			case KStr:
				args = append(args, app("sarr", t.S), "0", app("slen", t.S))
			default:
				return e.fail("argument %s of %s is not a byte string", exprString(a), name)
			}
			pi += 3
			continue
		}
		t := e.compile(a, rawSort(p.Sort))
		if t.So.Name != p.Sort && !(t.So.K == KInt && p.Sort == "Int") && !(t.So.K == KRef && p.Sort == "Int") {
			return e.fail("argument %s of %s has sort %s, want %s", exprString(a), name, t.So.Name, p.Sort)
		}
		args = append(args, t.S)
		pi++
	}
	if pi != len(sf.Params) {
		return e.fail("wrong number of arguments to %s", name)
	}
	return T{S: app(name, args...), So: rawSort(sf.Ret)}
}

// convertTerm converts between integer representations.
func convertTerm(s string, from, to *Sort) string {
	switch {
	case from.K == KInt && to.K == KInt:
		if to.W == 32 && from.W != 32 {
			return app("wrap32", s)
		}
		return s
	case from.K == KBV && to.K == KBV:
		if from.W == to.W {
			return s
		}
		if from.W < to.W {
			return app(fmt.Sprintf("(_ zero_extend %d)", to.W-from.W), s)
		}
		return app(fmt.Sprintf("(_ extract %d 0)", to.W-1), s)
	case from.K == KInt && to.K == KBV:
		return app(fmt.Sprintf("(_ int2bv %d)", to.W), s)
	case from.K == KBV && to.K == KInt:
		if to.W == 0 {
			return app("bv2nat", s)
		}
		if from.W < 64 && to.W >= 64 || from.W < to.W {
			return app("bv2nat", s)
		}
		if from.W == 64 {
			if to.W == 32 {
				return app("wrap32", app("u2s64", s))
			}
			return app("u2s64", s)
		}
		// 32 -> 32 signed
		return app("wrap32", app("bv2nat", s))
	}
	return s
}

// findAnchor returns the base expression X of the first index expression X[k] whose index is
// exactly the bound variable k and whose base does not mention k.
func findAnchor(args []ast.Expr, k string) ast.Expr {
	var found ast.Expr
	for _, a := range args {
		ast.Inspect(a, func(n ast.Node) bool {
			if found != nil {
				return false
			}
			if ix, ok := n.(*ast.IndexExpr); ok {
				if id, ok := ix.Index.(*ast.Ident); ok && id.Name == k && !mentions(ix.X, k) {
					if call, isCall := ix.X.(*ast.CallExpr); isCall {
						if f, ok := call.Fun.(*ast.Ident); ok && f.Name == "old" {
							return true // old(x)[k]: not anchored
						}
					}
					found = ix.X
					return false
				}
			}
			if call, ok := n.(*ast.CallExpr); ok {
				if f, ok := call.Fun.(*ast.Ident); ok && (f.Name == "forall" || f.Name == "exists" || f.Name == "old") {
					return false
				}
			}
			return true
		})
	}
	return found
}

func mentions(x ast.Expr, k string) bool {
	m := false
	ast.Inspect(x, func(n ast.Node) bool {
		if id, ok := n.(*ast.Ident); ok && id.Name == k {
			m = true
		}
		return !m
	})
	return m
}

func (e *Env) anchoredForall(v *ast.CallExpr, bn string, anchor ast.Expr) (T, bool) {
	base := e.compile(anchor, nil)
	if len(e.errs) > 0 || base.So.K != KSlice {
		return T{}, false
	}
	g := e.g
	el, elT := g.elemOf(base.GoT)
	if el == nil {
		return T{}, false
	}
	h := g.stGet(e.st, g.elemHeapName(elT), g.elemHeapSort(el))
	j := bn + "!abs"
	c := e.child()
	c.bound[bn] = T{S: app("-", j, app("s_off", base.S)), So: SMath}
	c.anchorText = exprString(anchor)
	c.anchorVar = bn
	c.anchorElem = T{S: app("select", app("select", h, app("s_obj", base.S)), j), So: el, GoT: elT}
	var body T
	if len(v.Args) == 3 {
		cond := c.compileBool(v.Args[1])
		b := c.compileBool(v.Args[2])
		body = T{S: app("=>", cond.S, b.S), So: SBool}
	} else {
		body = c.compileBool(v.Args[1])
	}
	e.errs = c.errs
	pat := app("select", app("select", h, app("s_obj", base.S)), j)
	return T{S: fmt.Sprintf("(forall ((%s Int)) (! %s :pattern (%s)))", j, body.S, pat), So: SBool}, true
}
